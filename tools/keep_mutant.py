#!/venv/bin/python
"""tools/keep_mutant.py <name> <agent dir> <A|B> <json meta>  -> /verif/seeded/<name>/{patch.diff,demo.py,meta.json}"""
import json, os, shutil, sys
name, adir, x, meta = sys.argv[1], sys.argv[2], sys.argv[3], json.loads(sys.argv[4])
d = os.path.join(os.path.dirname(os.path.abspath(__file__)), "..", "seeded", name)
os.makedirs(d, exist_ok=True)
shutil.copy(os.path.join(adir, f"mut{x}.diff"), os.path.join(d, "patch.diff"))
shutil.copy(os.path.join(adir, f"demo{x}.py"), os.path.join(d, "demo.py"))
meta.setdefault("source", "independent sub-agent given only the property text and a scratch worktree")
meta.setdefault("verified", "scratch worktree of /repo HEAD via tools/try_mutant.sh: demo passes on the clean tree; with the patch "
                "the repository's 54 tests still pass and the demo fails (exit 1)")
json.dump(meta, open(os.path.join(d, "meta.json"), "w"), indent=1)
print("kept", name)
