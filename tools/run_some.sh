#!/bin/bash
# tools/run_some.sh <tier> <id...>: like run_all.sh for the given checks only.
cd "$(dirname "$0")/.."
tier="$1"; shift
rc=0
for id in "$@"; do
  s=$(date +%s)
  out=$(./check $id --tier $tier 2>&1); code=$?
  e=$(date +%s)
  echo "$id exit=$code wall=$((e-s))s $(echo "$out" | grep -c '^VIOLATION') violations; $(echo "$out" | grep -c '^KNOWN-FINDING') known"
  [ $code -ne 0 ] && rc=1 && echo "$out" | grep -v '^VIOLATION' | head -5
done
exit $rc
