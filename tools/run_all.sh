#!/bin/bash
# Runs every registered check at the given tier (default quick) sequentially; prints one line per check.
cd "$(dirname "$0")/.."
tier="${1:-quick}"
rc=0
for i in $(seq -w 1 19); do
  id="C$i"
  s=$(date +%s)
  out=$(./check $id --tier $tier 2>&1); code=$?
  e=$(date +%s)
  echo "$id exit=$code wall=$((e-s))s $(echo "$out" | grep -c '^VIOLATION') violations; $(echo "$out" | grep -c '^KNOWN-FINDING') known"
  [ $code -ne 0 ] && rc=1 && echo "$out" | grep -v '^VIOLATION' | head -5
done
exit $rc
