#!/bin/bash
# Runs every quick check for the given seeds; prints only failures and a summary.
cd "$(dirname "$0")/.."
for seed in "$@"; do
  for i in $(seq -w 1 19); do
    out=$(VERIF_SEED=$seed ./check C$i --tier quick 2>&1); code=$?
    if [ $code -ne 0 ]; then echo "seed=$seed C$i exit=$code"; echo "$out" | grep -v '^VIOLATION' | head -4 | cut -c1-400; fi
  done
  echo "seed $seed done"
done
