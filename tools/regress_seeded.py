#!/venv/bin/python
"""Re-runs the quick tier of the checks named in each seeded change's meta.json against a scratch worktree of
/repo HEAD with the change applied (never /repo itself) and records which ones report it.

    tools/regress_seeded.py [--all-listed] [id ...]     -> /verif/seeded/RESULTS.json

By default only the first check listed under `detected_by` is run per change; --all-listed runs every one.
"""
import json
import os
import subprocess
import sys
import time

VERIF = os.path.realpath(os.path.join(os.path.dirname(__file__), ".."))
SEEDED = os.path.join(VERIF, "seeded")


def run(cmd, **kw):
    return subprocess.run(cmd, capture_output=True, text=True, **kw)


def main():
    args = [a for a in sys.argv[1:] if not a.startswith("--")]
    all_listed = "--all-listed" in sys.argv
    ids = args or sorted(d for d in os.listdir(SEEDED) if os.path.isdir(os.path.join(SEEDED, d)))
    out_path = os.path.join(SEEDED, "RESULTS.json")
    results = json.load(open(out_path)) if (os.path.exists(out_path) and args) else {}
    head = run(["git", "-C", "/repo", "rev-parse", "--short", "HEAD"]).stdout.strip()
    for sid in ids:
        d = os.path.join(SEEDED, sid)
        meta = json.load(open(os.path.join(d, "meta.json")))
        checks = list(meta.get("detected_by", {}))
        if not all_listed:
            checks = checks[:1]
        wt = f"/tmp/wt/regress_{os.getpid()}"
        run(["git", "-C", "/repo", "worktree", "add", "-q", wt, "HEAD"])
        try:
            ap = run(["git", "apply", os.path.join(d, "patch.diff")], cwd=wt)
            if ap.returncode != 0:
                results[sid] = {"error": "patch does not apply", "repo_head": head}
                continue
            t = run(["/venv/bin/python", "-m", "pytest", "-q", "-p", "no:cacheprovider", "tests", "--continue-on-collection-errors"],
                    cwd=wt, env=dict(os.environ, PYTHONPATH=f"{wt}/src"))
            tests = t.stdout.strip().splitlines()[-1] if t.stdout.strip() else "?"
            demo = run(["/venv/bin/python", os.path.join(d, "demo.py")], cwd=wt, env=dict(os.environ, PYTHONPATH=f"{wt}/src"))
            entry = {"repo_head": head, "tests": tests, "demo_exit_with_change": demo.returncode, "checks": {}}
            for c in checks:
                t0 = time.time()
                r = run([os.path.join(VERIF, "check"), c, "--tier", "quick"], env=dict(os.environ, VERIF_SRC_ROOT=wt))
                sigs = sorted({ln.split("]")[0].strip()[1:] for ln in r.stdout.splitlines() if ln.startswith("  [")})
                entry["checks"][c] = {"exit": r.returncode, "violation_lines": r.stdout.count("\nVIOLATION "),
                                      "signatures": sigs[:8], "wall_s": round(time.time() - t0, 1)}
            entry["reported"] = any(v["exit"] == 1 and v["violation_lines"] > 0 for v in entry["checks"].values())
            results[sid] = entry
            print(sid, "reported" if entry["reported"] else "NOT REPORTED", {c: v["exit"] for c, v in entry["checks"].items()}, flush=True)
        finally:
            run(["git", "-C", "/repo", "worktree", "remove", "--force", wt])
        with open(out_path, "w") as f:
            json.dump(results, f, indent=1, sort_keys=True)
    missed = [k for k, v in results.items() if not v.get("reported")]
    print(f"{len(results)} seeded changes, {len(results) - len(missed)} reported; not reported: {missed}")


if __name__ == "__main__":
    main()
