#!/bin/bash
# tools/try_mutant.sh <patch.diff> <demo.py|-> <tier> <check ids...>
# Applies a seeded change to a scratch worktree of /repo HEAD (never to /repo itself), runs the repository's
# test suite and the demonstration there, then the given checks against the scratch tree; removes the worktree.
set -u
patch="$(realpath "$1")"; demo="$2"; tier="$3"; shift 3
wt="/tmp/wt/try_$$"
git -C /repo worktree add -q "$wt" HEAD || exit 2
cleanup() { git -C /repo worktree remove --force "$wt" >/dev/null 2>&1; }
trap cleanup EXIT
if [ "$demo" != "-" ]; then
  d="$(realpath "$demo")"
  ( cd "$wt" && PYTHONPATH="$wt/src" /venv/bin/python "$d" >/dev/null 2>&1 ); echo "demo on clean tree: exit $?"
fi
( cd "$wt" && git apply "$patch" ) || { echo "patch does not apply"; exit 2; }
( cd "$wt" && PYTHONPATH="$wt/src" /venv/bin/python -m pytest -q -p no:cacheprovider tests --continue-on-collection-errors 2>&1 | tail -1 )
if [ "$demo" != "-" ]; then
  ( cd "$wt" && PYTHONPATH="$wt/src" /venv/bin/python "$d" > /tmp/wt/demo_out_$$ 2>&1; echo "demo with change: exit $?"; tail -2 /tmp/wt/demo_out_$$; rm -f /tmp/wt/demo_out_$$ )
fi
cd /verif
for id in "$@"; do
  out=$(VERIF_SRC_ROOT="$wt" ./check "$id" --tier "$tier" 2>&1); code=$?
  nv=$(echo "$out" | grep -c '^VIOLATION')
  echo "CHECK $id exit=$code violations_listed=$nv"
  echo "$out" | grep '^  \[' | cut -c1-260 | awk '{print $1}' | sort | uniq -c | head -6
  echo "$out" | grep '^  \[' | head -1 | cut -c1-300
done
