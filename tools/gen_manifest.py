#!/venv/bin/python
"""Regenerates /verif/MANIFEST.json from the table below (one entry per built check)."""
import json
import os

HERE = os.path.realpath(os.path.join(os.path.dirname(__file__), ".."))

BASELINE_OFF = ("cd /repo && env -u SYM_METANET_VERIF /venv/bin/python -m pytest -ra -q -p no:cacheprovider "
                "--timeout=900 --continue-on-collection-errors")

# id -> (technique, level text, level note, design ref)
CHECKS = {
    "C15": (
        "full Cartesian product of argument alphabets per engine primitive (deviation-bounded for the 16-argument speed "
        "update), NumPy arrays in every shape the element layer produces vs casadi.DM",
        "Exhaustive enumeration on the implementation: for each of the 14 primitives plus max and vcat every combination of "
        "alphabet values (branch boundaries, zeros, infinities) and argument shapes is evaluated with both real engines; "
        "values must agree within 1e-9 and be finite whenever the primitive's own 0/0 does not occur; step_speed is "
        "explored to 2 (quick) / 3 (thorough) simultaneous excursions from two base tuples under all four None patterns.",
        "Variables are passed as arrays/DM, parameters as plain numbers (what the element layer does).",
        "DESIGN.md section 3, C15",
    ),
    "C17": (
        "full Cartesian product of admissible argument alphabets for the origin-flow primitives on both engines, plus "
        "exhaustive network programs x admissible deviation-bounded vectors at network level; inequality oracles",
        "Exhaustive enumeration on the implementation: every admissible (queue, demand, control, density, speed, capacity, "
        "T) tuple of the alphabets for mainstream, both metered variants and limited simplified origins on both engines, "
        "and the origin flows / next queues of every network within the bound on every admissible single-excursion "
        "vector (NumPy and compiled SX): 0 <= q <= d + w/T, q <= capacity, q = 0 at maximum density, w+ >= 0.",
        "Alphabets include the corners where several limits are active together; tolerance 1e-9.",
        "DESIGN.md section 3, C17",
    ),
    "C18": (
        "exhaustive enumeration of shapes x controlled element positions x neutral/finite control settings x value "
        "vectors; metamorphic equalities and a monotonicity inequality between paired real networks",
        "Bounded exhaustive exploration on the implementation: for every valid shape within the bound, every link as a "
        "VSL link (N in 1..3, every VSL-set option incl. empty) with infinite limits must equal the plain link; a finite "
        "limit must not raise any next speed and must leave every other next state untouched; metered 'in'/'out' with "
        "r=1 and limited simplified with infinite desired flow must coincide; a mainstream origin with limit inf, 1e6 or "
        "its first-segment speed must coincide; NumPy and compiled SX on base vectors and all single excursions.",
        "The controlled element is the only deviation from the base configuration; tolerance 1e-12 / 1e-9.",
        "DESIGN.md section 3, C18",
    ),
    "C12": (
        "exhaustive enumeration of step/compile histories on the same network objects with caller-held inputs; purity "
        "invariants after every operation and bitwise comparison with the same step on a fresh network",
        "Bounded exhaustive exploration of histories on real objects: every history up to length 3 (quick) / 4 (thorough) "
        "over 16 operations (steps with 3 engines x 2 value sets x 2 option sets, simulation-loop feedback steps, "
        "to_function) on 4 harness networks containing every element kind, plus NumPy-only histories (length 4 / 5) in "
        "which all parameters are 0-d arrays; after every operation all caller-held arrays, dictionaries, symbols and "
        "element/model parameters must be unchanged and every step must reproduce, bit for bit, the same step on a fresh "
        "network.",
        "Two value sets and two option sets; caller symbols compared by identity and printed form.",
        "DESIGN.md section 3, C12",
    ),
    "C13": (
        "exhaustive enumeration of engine-selection/step histories with counting engine proxies; one-variable reference "
        "model of the current engine",
        "Bounded exhaustive exploration of histories on the real module state: every history up to length 3 (quick) / 4 "
        "(thorough) over 12 operations (use by valid/invalid name, arbitrary object, three spy instances, "
        "get_current_engine, step with and without explicit engine) on 3 harness networks; the spies are EngineBase "
        "subclasses delegating to the real engines. After every operation the model's `current` must be "
        "get_current_engine() and sym_metanet.engine; a step must be computed entirely by the engine it must use (exact "
        "per-primitive call counts, zero calls on every other spy, value types of that engine) and leave the selection "
        "untouched.",
        "Calls between sibling static methods inside an engine are not counted.",
        "DESIGN.md section 3, C13",
    ),
    "C14": (
        "exhaustive enumeration of network programs x all permutations of the construction calls / renamings / "
        "turn-rate scalings; metamorphic comparison of per-element next states on the real code",
        "Bounded exhaustive exploration on the implementation: for every valid topology/configuration within the bound, "
        "ALL permutations of the construction-call list (<=6 calls; else all orders within 2 transpositions), "
        "nodes-first, bulk and add_path-based construction, 4 renamings (incl. all-equal names and library auto-names) "
        "and 4 scale factors per branching node are built through the real API and stepped (NumPy and compiled SX); "
        "per-element next states must equal those of the base network and the recovered inflow shares must equal "
        "beta/sum(beta).",
        "Tolerance 0 for renaming, 1e-12 for reordering/scaling; 2 base vectors (thorough: single excursions on SX).",
        "DESIGN.md section 3, C14",
    ),
    "C11": (
        "exhaustive enumeration of network programs x option sets x value vectors with negative entries x engines; "
        "metamorphic comparison of the real step with options against the real plain step wrapped in harness clamps",
        "Bounded exhaustive exploration on the implementation: for every valid topology/configuration within the bound "
        "and every option set in the tier (all sets with <=2 options and all six; thorough: all 63), the real NumPy step "
        "and the real compiled SX/MX function with the options must equal clamp_next(plain(clamp_init(x))) with the clamps "
        "applied by the harness to exactly the named quantities, on negated/alternating-sign base vectors and all single "
        "excursions over alphabets that contain negative values; without options negative values must pass unclamped.",
        "Where the plain result is NaN (negative density under a non-integer power) max(0, NaN) is engine-defined and not "
        "compared; tolerance 1e-12.",
        "DESIGN.md section 3, C11",
    ),
    "C19": (
        "exhaustive enumeration of API histories (per-element init/step, Network.step variants, adding a link after "
        "stepping) with to_function observed in every reached state; stateless to a length, state-matching BFS beyond",
        "Bounded exhaustive exploration of histories on real objects: all histories over 14 operations up to length 3 "
        "(quick) / 4 (thorough) for SX and MX, plus breadth-first search to depth 5 / 7 with states merged on a model key "
        "(initialised?, stepped with which parameters under which topology, which dependencies were re-initialised since). "
        "In every state the model predicts RuntimeError or function; a returned function must have no free symbols and "
        "each element's results must equal the NumPy twin of that element's most recent step.",
        "One network family (metered ramp, VSL link, plain link, congested destination, spare link+destination); model "
        "of staleness from the C10 dependency relation; one admissible value vector for the numeric clause.",
        "DESIGN.md section 3, C19",
    ),
    "C03": (
        "exhaustive enumeration of network programs x compilation variants (symbol type x compactness x extra outputs x "
        "symbolic parameters) x deviation-bounded value vectors; compiled function vs NumPy step of a twin network",
        "Bounded exhaustive exploration on the implementation: every valid topology/configuration within the bound is "
        "compiled by the real CasADi engine in 11 (quick) / all 24 (thorough) variants and evaluated on the base vectors "
        "and every single excursion over the branch-boundary alphabets (zero speeds, guard region, infinite limits); every "
        "next-state scalar is compared with the real NumPy step of a twin network.",
        "Results are located through the layout model (C04 checks it independently); both engines producing NaN at the "
        "model's own 0/0 counts as agreement; tolerance 1e-9.",
        "DESIGN.md section 3, C03",
    ),
    "C04": (
        "exhaustive enumeration of network programs x construction orders x compilation variants; names, sizes, free "
        "symbols, values, feedback and level equivalence compared with a layout model derived from the construction calls",
        "Bounded exhaustive exploration on the implementation: for every valid topology/configuration within the bound "
        "and 3 construction orders, the real to_function result at compactness 0/1/2, with/without extra outputs, "
        "parameters and positivity-init options, SX and MX, must have exactly the argument/result names, sizes and order "
        "of the layout model, no free symbol, successors named after their state argument, element-distinct values "
        "located through the model equal to the NumPy twin, F(F(x)) fed back positionally equal to two NumPy steps, and "
        "equal result scalars across the three levels.",
        "Layout model mc/layout.py (documented concatenation; element order = graph edge order, then origins and "
        "destinations in node order, derived from the construction calls by a model of DiGraph insertion order).",
        "DESIGN.md section 3, C04",
    ),
    "C05": (
        "exhaustive enumeration of network programs x compactness x symbol type x positivity-init options x value "
        "vectors; self-consistency relations between reported flows, inputs and next states of the same call",
        "Bounded exhaustive exploration on the implementation with more_out=True: every reported link flow equals "
        "(clamped) rho*v*lanes of the input segment, every queued origin's next queue equals w + T(d - reported q_o), "
        "and the first-segment density update of the fed link balances with the reported flows, on every single-excursion "
        "vector (with negative values when positivity-init is on).",
        "Same T forwarded to to_function as to step; relations with an infinite reported flow are skipped; layout model "
        "locates the results.",
        "DESIGN.md section 3, C05",
    ),
    "C16": (
        "exhaustive enumeration of (network program, symbolic-parameter subset, declaration order, compilation variant); "
        "symbolic function at parameter values vs twin compiled with numbers",
        "Bounded exhaustive exploration on the implementation: singletons, the full set and round-robin pairs of the 12 "
        "parameters on every network within the bound, all subsets of size <=2 (thorough: all 4096 subsets) and all "
        "declaration orders of two triples on the harness list; every result scalar (next states and flows) of the "
        "symbolic function evaluated at two parameter value sets equals the numeric twin; trailing argument names / "
        "stacked p follow the declared order; no free symbols.",
        "A symbolic link parameter is shared by all links; lanes and turn rates never symbolic; tolerance 1e-9.",
        "DESIGN.md section 3, C16",
    ),
    "C02": (
        "exhaustive enumeration of network programs x deviation-bounded value vectors, network-wide and per-node "
        "vehicle balances computed from each real step's own inputs and outputs",
        "Bounded exhaustive exploration on the implementation (same program/value space as C01, own run): after every "
        "real NumPy step and every evaluation of the compiled SX (thorough: also MX) function the network balance and "
        "one balance per node are checked; no reference model is involved, the oracle is an identity over the "
        "function's own I/O.",
        "Vectors with infinite controls are skipped; tolerance 1e-9 relative to the largest balance term; networks "
        "above the bound are not built.",
        "DESIGN.md section 3, C02",
    ),
    "C10": (
        "exhaustive enumeration of network programs; per program all (output, input) structural dependency bits of the "
        "real compiled function (CasADi sparsity propagation) and all single-scalar perturbations of the NumPy step, "
        "checked against an allowed-neighbour relation",
        "Bounded exhaustive exploration on the implementation: for every valid topology/configuration within the bound "
        "the real compiled function (SX and MX, with and without delta/phi) is examined for every output/input scalar "
        "pair - a structural bit is a statement about all numeric inputs - and the NumPy path is perturbed one scalar "
        "at a time over the alphabets from two base vectors; observed dependencies must be allowed by the METANET "
        "neighbour relation derived from the spec alone.",
        "Allowed relation from mc/refmodel.allowed_dependencies; CasADi's sparsity propagation is trusted to be a sound "
        "over-approximation of real dependence (measured: never coarser than the allowed relation on the fixed tree).",
        "DESIGN.md section 3, C10",
    ),
    "C01": (
        "exhaustive enumeration of network programs (shapes up to isomorphism x configurations within a deviation "
        "bound) x value vectors (deviation-bounded over branch-boundary alphabets), every real step compared "
        "component-wise with a reference METANET model",
        "Bounded exhaustive exploration on the implementation: every valid topology with <=3 nodes/<=4 links (quick) "
        "or <=4 nodes/<=5 links (thorough), every element kind in every position, 1..3 segments, VSL sets, delta/phi "
        "present and absent; each network is stepped by the real NumPy engine and evaluated through the real compiled "
        "CasADi function on the base vectors and all single (thorough: pair, local full product) excursions, and every "
        "next density/speed/queue is compared with the reference model. Branch coverage of every min/max/if is "
        "measured and reported.",
        "Trusts the reference model mc/refmodel.py (plain-float transcription of eqs. 3.1-3.11 and the documented "
        "boundary laws); excludes the model's own 0/0, the documented log-ratio guard region and lane gains; values "
        "between alphabet points are not covered; tolerance 1e-9.",
        "DESIGN.md section 3, C01",
    ),
    "C07": (
        "exhaustive enumeration of valid network programs x engines x symbol types x compactness levels x options x "
        "boundary value vectors on the real code",
        "Bounded exhaustive exploration on the implementation: every valid topology within the bound and every "
        "configuration with <=1 deviating element is validated, stepped with NumPy (user arrays of both scalar "
        "shapes, the engine's own variables) and CasADi SX/MX, compiled at compactness 0/1/2 with and without extra "
        "outputs and with each positivity option, and evaluated on all single-excursion boundary vectors; oracle: no "
        "exception, next.shape == state.shape, finite outputs unless the reference model itself meets 0/0.",
        "Networks above (3,3) quick / (3,4)+(4,4) thorough are not built; infinite limits are C18's business.",
        "DESIGN.md section 3, C07",
    ),
    "C06": (
        "explicit enumeration of all labelled graphs within a size bound, built on the real Network through two API "
        "histories, is_valid compared with an independent nine-condition predicate on every graph",
        "Bounded exhaustive exploration on the implementation: every labelled graph (valid or not, with shared "
        "link/origin/destination objects, self-loops, isolated nodes) up to 3 nodes/3 links (quick) or 3 nodes/4 "
        "links and 4 nodes/4 links (thorough) is constructed and validated; verdict, messages and raising mode are "
        "compared with the reference predicate. Exhaustive within the bound, nothing beyond it.",
        "Trusts networkx's DiGraph and the reference predicate in mc/graphmodel.py (nine conditions transcribed "
        "from the documentation of Network.is_valid).",
        "DESIGN.md section 3, C06",
    ),
    "C08": (
        "stateless enumeration of all mutate/read API histories up to a length plus state-matching BFS over "
        "(graph, memoised-entry set), every lookup compared with a recomputation from the graph at every step",
        "Bounded exhaustive exploration of read-mutate-read histories on real Network objects: explorer A runs every "
        "history m1 R1 .. mk (k<=3 quick, k<=4 thorough) over 20 mutating calls and 13 lookups without looking inside "
        "the object; explorer B is an explicit-state BFS (depth 5 quick / 7 thorough) whose state is the graph plus "
        "the set of memoised entries, with the staleness invariant checked in every state.",
        "Universe of 3 nodes/2 links/2 origins/2 destinations; B's state merging assumes memoisation lives in the "
        "instance __dict__ (A does not); ambiguous lookups under shared element objects accept any pair of the graph.",
        "DESIGN.md section 3, C08",
    ),
    "C09": (
        "exhaustive enumeration of construction-call histories up to a depth and of all path shapes up to a length, "
        "real graph compared with a reference graph model after every call",
        "Bounded exhaustive exploration on the implementation: all histories over 26 construction calls to depth 3 "
        "(quick) / 4 (thorough) with graph==model after every call, and every path shape of length 0..5 (quick) / "
        "0..6 (thorough) over 7 token kinds x origin x destination x 2 start networks; well-formed paths must build "
        "the model graph, malformed ones must raise, and no non-Node may ever become a graph node.",
        "Reference graph model in mc/graphmodel.py (later attachment replaces earlier); non-node/link tokens are an "
        "Origin object and a str; partial mutation before a rejection is allowed.",
        "DESIGN.md section 3, C09",
    ),
}

NOT_YET = "check not built yet (work in progress; see DESIGN.md section 7)"

ALL = [f"C{i:02d}" for i in range(1, 20)]


def main():
    checks = []
    for pid in ALL:
        if pid not in CHECKS:
            continue
        tech, text, note, ref = CHECKS[pid]
        checks.append({
            "property_id": pid,
            "quick_cmd": f"./check {pid} --tier quick",
            "thorough_cmd": f"./check {pid} --tier thorough",
            "evidence_file": f"/verif/evidence/{pid}.json",
            "replay_cmd_template": f"./check {pid} --replay {{path}}",
            "engine": "mc-explorer",
            "level_claimed": {"category": "model_checking", "text": text, "design_ref": ref},
            "level_note": note,
            "technique": tech,
        })
    man = {
        "version": 1,
        "setup_cmd": "cd /verif && ./setup.sh",
        "hooks": {
            "guard": "SYM_METANET_VERIF",
            "enable": "no source hooks are needed: every property is observable through the public API, the "
                      "graph object and engine proxies; ./check exports SYM_METANET_VERIF=1 for uniformity and binds "
                      "PYTHONPATH to /repo/src so that the current working tree is what runs",
            "baseline_off_cmd": BASELINE_OFF,
            "source_commits": [],
            "add_only": True,
        },
        "engines": [{
            "name": "mc-explorer",
            "path": "/verif/mc",
            "serves_properties": [c["property_id"] for c in checks],
            "kind_free_text": "hand-written explicit-state / stateless bounded explorer in Python that drives the real "
                              "sym_metanet code (API histories, network programs, value vectors) against reference "
                              "models, sharded over 16 processes",
        }],
        "checks": checks,
        "not_applicable": [{"property_id": p, "reason": NOT_YET} for p in ALL if p not in CHECKS],
        "notes": "All checks are bounded exhaustive explorations executed on the implementation itself "
                 "(see DESIGN.md). Fixed defects of the repository are listed in known_findings.json (status fixed).",
    }
    with open(os.path.join(HERE, "MANIFEST.json"), "w") as f:
        json.dump(man, f, indent=1)
        f.write("\n")
    print("MANIFEST.json:", len(checks), "checks,", len(man["not_applicable"]), "not yet claimed")


if __name__ == "__main__":
    main()
