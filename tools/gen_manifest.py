#!/venv/bin/python
"""Regenerates /verif/MANIFEST.json from the table below (one entry per built check)."""
import json
import os

HERE = os.path.realpath(os.path.join(os.path.dirname(__file__), ".."))

BASELINE_OFF = ("cd /repo && env -u SYM_METANET_VERIF /venv/bin/python -m pytest -ra -q -p no:cacheprovider "
                "--timeout=900 --continue-on-collection-errors")

# id -> (technique, level text, level note, design ref)
CHECKS = {
    "C06": (
        "explicit enumeration of all labelled graphs within a size bound, built on the real Network through two API "
        "histories, is_valid compared with an independent nine-condition predicate on every graph",
        "Bounded exhaustive exploration on the implementation: every labelled graph (valid or not, with shared "
        "link/origin/destination objects, self-loops, isolated nodes) up to 3 nodes/3 links (quick) or 3 nodes/4 "
        "links and 4 nodes/4 links (thorough) is constructed and validated; verdict, messages and raising mode are "
        "compared with the reference predicate. Exhaustive within the bound, nothing beyond it.",
        "Trusts networkx's DiGraph and the reference predicate in mc/graphmodel.py (nine conditions transcribed "
        "from the documentation of Network.is_valid).",
        "DESIGN.md section 3, C06",
    ),
}

NOT_YET = "check not built yet (work in progress; see DESIGN.md section 7)"

ALL = [f"C{i:02d}" for i in range(1, 20)]


def main():
    checks = []
    for pid in ALL:
        if pid not in CHECKS:
            continue
        tech, text, note, ref = CHECKS[pid]
        checks.append({
            "property_id": pid,
            "quick_cmd": f"./check {pid} --tier quick",
            "thorough_cmd": f"./check {pid} --tier thorough",
            "evidence_file": f"/verif/evidence/{pid}.json",
            "replay_cmd_template": f"./check {pid} --replay {{path}}",
            "engine": "mc-explorer",
            "level_claimed": {"category": "model_checking", "text": text, "design_ref": ref},
            "level_note": note,
            "technique": tech,
        })
    man = {
        "version": 1,
        "setup_cmd": "cd /verif && ./setup.sh",
        "hooks": {
            "guard": "SYM_METANET_VERIF",
            "enable": "no source hooks are needed: every property is observable through the public API, the "
                      "graph object and engine proxies; ./check exports SYM_METANET_VERIF=1 for uniformity and binds "
                      "PYTHONPATH to /repo/src so that the current working tree is what runs",
            "baseline_off_cmd": BASELINE_OFF,
            "source_commits": [],
            "add_only": True,
        },
        "engines": [{
            "name": "mc-explorer",
            "path": "/verif/mc",
            "serves_properties": [c["property_id"] for c in checks],
            "kind_free_text": "hand-written explicit-state / stateless bounded explorer in Python that drives the real "
                              "sym_metanet code (API histories, network programs, value vectors) against reference "
                              "models, sharded over 16 processes",
        }],
        "checks": checks,
        "not_applicable": [{"property_id": p, "reason": NOT_YET} for p in ALL if p not in CHECKS],
        "notes": "All checks are bounded exhaustive explorations executed on the implementation itself "
                 "(see DESIGN.md). Fixed defects of the repository are listed in known_findings.json (status fixed).",
    }
    with open(os.path.join(HERE, "MANIFEST.json"), "w") as f:
        json.dump(man, f, indent=1)
        f.write("\n")
    print("MANIFEST.json:", len(checks), "checks,", len(man["not_applicable"]), "not yet claimed")


if __name__ == "__main__":
    main()
