#!/venv/bin/python
"""Regenerates /verif/MANIFEST.json from the table below (one entry per built check)."""
import json
import os

HERE = os.path.realpath(os.path.join(os.path.dirname(__file__), ".."))

BASELINE_OFF = ("cd /repo && env -u SYM_METANET_VERIF /venv/bin/python -m pytest -ra -q -p no:cacheprovider "
                "--timeout=900 --continue-on-collection-errors")

# id -> (technique, level text, level note, design ref)
Q = "quick: all valid shapes with <=3 nodes/<=3 links up to isomorphism x every single-ELEMENT deviation of the base configuration (a link deviates jointly in segment count 1..3 and VSL set) + uniform configurations + the 10 harness networks; thorough: <=3 nodes/<=4 links, two deviating elements on (3,3), all 4-node shapes with <=4 links, pair excursions"
CHECKS = {
    "C01": (
        "bounded exhaustive enumeration of network programs x value vectors (deviation-bounded over branch-boundary alphabets) x construction/edit histories; every real step compared component-wise with a reference METANET model",
        "Exhaustive within bounds, on the implementation: " + Q + ". Each network is stepped by the real NumPy engine and evaluated through the real compiled CasADi function on 2 element-distinct base vectors and every single excursion (thorough: pairs, local full products over dependency cones); it is also reached from non-initial states (all lookups read after every construction call + a previous step with other values; a different already-stepped network edited in place: links swapped, links replaced, origins/destinations attached later). Every next density/speed/queue is compared with the reference model; branch coverage of every min/max/if is measured.",
        "Reference model mc/refmodel.py (plain-float transcription of eqs. 3.1-3.11 and the documented boundary laws); excluded and counted: the model's own 0/0 or non-finite value, the documented log-ratio guard region, lane gains; tolerance 1e-9; values between alphabet points not covered.",
        "DESIGN.md sections 3 (C01) and 8",
    ),
    "C02": (
        "bounded exhaustive enumeration of network programs x value vectors x construction/edit histories; network-wide and per-node vehicle balances computed from each real step's own inputs and outputs",
        "Same program/value/history space as C01 (own run). After every real NumPy step and every evaluation of the compiled function the network balance and one balance per node are checked; the oracle is an identity over the step's own I/O, no reference model.",
        "Vectors with infinite controls skipped; tolerance 1e-9 relative to the largest balance term.",
        "DESIGN.md sections 3 (C02) and 8",
    ),
    "C03": (
        "bounded exhaustive enumeration of network programs x compilation variants (symbol type x compactness x extra outputs x symbolic parameters) x value vectors; compiled function vs NumPy step of a twin network",
        "Exhaustive within bounds, on the implementation: every network of the quick/thorough program space is compiled by the real CasADi engine in 3-11 (quick) / all 24 (thorough) variants and evaluated on the base vectors and every single excursion (zero speeds, guard region, infinite limits); every next-state scalar is compared with the real NumPy step of a twin network.",
        "Results located through the layout model (checked by C04); NaN on both sides at the model's own 0/0 counts as agreement; tolerance 1e-9.",
        "DESIGN.md sections 3 (C03) and 8",
    ),
    "C04": (
        "bounded exhaustive enumeration of network programs x construction orders x compilation variants x step histories; names, sizes, free symbols, values, feedback and level equivalence compared with a layout model derived from the construction calls",
        "Exhaustive within bounds: for every network and 3 construction orders the real to_function result at compactness 0/1/2 and the documented alias levels (<=0, >1), with/without extra outputs, parameters and positivity-init options, SX and MX, after one step, after a re-step with caller symbols in reversed key order, and after a single step with caller symbols, must have exactly the names/sizes/order of the layout model, no free symbol, successors named after their state argument, element-distinct values equal to the NumPy twin, F(F(x)) fed back positionally equal to two NumPy steps, and equal result scalars across levels. Includes 12-segment links (two-digit segment indices).",
        "Layout model mc/layout.py (documented concatenation; element order from a model of DiGraph insertion order; order of variables inside one element taken from the real element).",
        "DESIGN.md sections 3 (C04) and 8",
    ),
    "C05": (
        "bounded exhaustive enumeration of network programs x compactness x symbol type x positivity-init x names x edit histories x value vectors; self-consistency of reported flows with the same call's inputs and next states",
        "Exhaustive within bounds, more_out=True: every reported link flow equals (clamped) rho*v*lanes of the input segment, every queued origin's next queue equals w + T(d - reported q_o), and the fed link's first-segment density balances with the reported flows - on every single-excursion vector (negative values when positivity-init is on), with all elements sharing one name, and on networks edited in place after a step.",
        "Same T forwarded to to_function as to step; relations with an infinite reported flow skipped; layout model locates the results.",
        "DESIGN.md sections 3 (C05) and 8",
    ),
    "C06": (
        "explicit enumeration of all labelled graphs within a size bound (valid or not, shared objects, equal names), each built through three API histories, is_valid compared with an independent nine-condition predicate",
        "Exhaustive within bounds on the real Network: every labelled graph up to 3 nodes/3 links (quick) or 3 nodes/4 links and 4 nodes/4 links (thorough), every way of sharing link/origin/destination objects, every origin/destination kind, and a pass with all elements sharing one name; three construction histories (nodes first; reversed attachments + bulk links; is_valid() after every call with add_path-based construction). Verdict, messages and raising mode are compared with the predicate.",
        "Predicate in mc/graphmodel.py transcribed from the documentation of is_valid; the property's 'randomly beyond the bound' clause is not implemented (sampling is another family).",
        "DESIGN.md sections 3 (C06) and 8",
    ),
    "C07": (
        "bounded exhaustive enumeration of valid network programs x engines x symbol types x compactness levels x options x boundary vectors x edit histories, plus all small graphs the predicate rejects",
        "Exhaustive within bounds: every valid network is validated, stepped with NumPy (user arrays of both scalar shapes, the engine's own variables) and CasADi SX/MX, compiled at compactness 0/1/2 with/without extra outputs and with each positivity option, evaluated on all single-excursion boundary vectors, and also reached by editing an already stepped network in place; no exception, next.shape == state.shape, finite outputs unless the reference model itself meets 0/0. Every small graph the predicate calls invalid is probed: if validation accepts it, it must be steppable.",
        "Single-element deviations get a lighter engine/level matrix in the quick tier; infinite limits are C18's business.",
        "DESIGN.md sections 3 (C07) and 8",
    ),
    "C08": (
        "stateless enumeration of all mutate/read API histories up to a length plus state-matching BFS over (graph, memoised-entry set); every lookup compared with a recomputation from the graph at every step",
        "Bounded exhaustive exploration of read-mutate-read histories on real Network objects: explorer A runs every history m1 R1 .. mk (k<=3 quick, k<=4 thorough) over 21 mutating calls (incl. generator arguments) and 13 lookups without looking inside the object; explorer B is an explicit-state BFS (depth 5 / 7) whose state is the graph plus the set of memoised entries, with the staleness invariant checked in every state.",
        "Universe of 3 nodes/2 links/2 origins/2 destinations; B's merging assumes memoisation lives in the instance __dict__ (A does not); ambiguous lookups under shared objects accept any pair of the graph.",
        "DESIGN.md sections 3 (C08) and 8",
    ),
    "C09": (
        "exhaustive enumeration of construction-call histories up to a depth and of all path shapes up to a length; real graph compared with a reference graph model after every call",
        "Bounded exhaustive exploration: all histories over 29 construction calls (lists and one-shot generators) to depth 3 / 4 with graph == model after every call, and every path shape of length 0..5 / 0..6 over 7 token kinds x origin x destination x 2 start networks; well-formed paths must build the model graph, malformed ones must raise, and no non-Node may ever become a graph node.",
        "Reference graph model in mc/graphmodel.py; partial mutation before a rejection is allowed.",
        "DESIGN.md sections 3 (C09) and 8",
    ),
    "C10": (
        "bounded exhaustive enumeration of network programs (fresh and edited in place); all (output, input) structural dependency bits of the real compiled function and all single-scalar perturbations of the NumPy step checked against an allowed-neighbour relation",
        "Exhaustive within bounds: for every network the real compiled function (SX and MX, with/without delta/phi; also after in-place edits of an already stepped network) is examined for every output/input scalar pair - a structural bit is a statement about all numeric inputs - and the NumPy path is perturbed one scalar at a time over the alphabets from two base vectors; observed dependencies must be allowed by the METANET neighbour relation derived from the spec alone.",
        "Allowed relation from mc/refmodel.allowed_dependencies; CasADi sparsity propagation trusted as a sound over-approximation (measured ~94% tight).",
        "DESIGN.md sections 3 (C10) and 8",
    ),
    "C11": (
        "bounded exhaustive enumeration of network programs x option sets x value vectors with negative entries x engines x option-pair histories; metamorphic comparison against the plain step wrapped in harness clamps",
        "Exhaustive within bounds: step(opts)(x) == clamp_next(plain(clamp_init(x))) with harness clamps on exactly the named quantities, for all single options, all pairs and all six (thorough: all 63 sets), NumPy and compiled SX/MX, on sign-flipped base vectors and single excursions over alphabets with negatives; all ordered pairs of 8 option sets on the SAME network objects; without options negative values must pass unclamped (reference model).",
        "Where the plain result is NaN, max(0, NaN) is engine-defined and skipped; tolerance 1e-12.",
        "DESIGN.md sections 3 (C11) and 8",
    ),
    "C12": (
        "exhaustive enumeration of step/compile histories on the same network objects with caller-held inputs; purity invariants after every operation and comparison with the same step on a fresh network",
        "Bounded exhaustive exploration of histories: every history up to length 2 over 22 operations and up to length 3 over 12 core operations (thorough 3 / 4) - steps with 3 engines x value sets (caller arrays/symbols, engine-created symbols) x option sets, other model parameters with the same caller values, simulation-loop feedback steps, to_function - on 9 networks incl. a cycle, downstream-first construction, ramps at interior/merge nodes; plus NumPy-only histories with all parameters as 0-d arrays. After every operation all caller-held arrays, dictionaries, symbols and parameters must be unchanged; every step must reproduce the same step on a fresh network (bitwise for NumPy, 1e-12 for two compilations).",
        "Two value sets, two option sets, two parameter sets.",
        "DESIGN.md sections 3 (C12) and 8",
    ),
    "C13": (
        "exhaustive enumeration of engine-selection/step histories (incl. failing steps) with counting engine proxies; one-variable reference model of the current engine",
        "Bounded exhaustive exploration on the real module state: every history up to length 3 / 4 over 15 operations (use by valid/invalid name, arbitrary object, three spy instances, get_current_engine, step with/without explicit engine, steps that must fail) on 3 networks. After every operation `current` must be get_current_engine() and sym_metanet.engine; a step must be computed entirely by the engine it must use (exact per-primitive call counts against a reference run, zero calls elsewhere, value types) and leave the selection untouched - also when it raises.",
        "Calls between sibling static methods inside an engine are not counted.",
        "DESIGN.md sections 3 (C13) and 8",
    ),
    "C14": (
        "bounded exhaustive enumeration of network programs x all permutations of the construction calls / renamings / turn-rate scalings; metamorphic comparison of per-element results on the real code",
        "Exhaustive within bounds: ALL permutations of the construction-call list (<=6 calls; else all orders within 2 transpositions; single-element deviations: <=4 calls / 1 transposition), nodes-first, bulk and add_path-based construction, 4 renamings (incl. all-equal names, library auto-names) and 4 scale factors per branching node, built through the real API and stepped (NumPy and compiled SX with flows); per-element next states and flows must equal the base network; recovered inflow shares must equal beta/sum(beta).",
        "Tolerance 1e-12 (equal names switch off CasADi cse, which may change the last bit).",
        "DESIGN.md sections 3 (C14) and 8",
    ),
    "C15": (
        "full Cartesian product of argument alphabets per engine primitive (deviation-bounded for the 16-argument speed update), NumPy arrays in every shape the element layer produces vs casadi.DM; each NumPy primitive evaluated twice on the same argument objects",
        "Exhaustive enumeration: for each of the 14 primitives plus max and vcat every combination of alphabet values (branch boundaries, zeros, infinities) and argument shapes is evaluated with both real engines; values must agree within 1e-9 and be finite whenever the primitive's own 0/0 does not occur; a second evaluation from the same argument objects must give the same value and leave the arguments untouched; step_speed for 1 and 3 segments to 1-2 (quick) / 3 (thorough) simultaneous excursions from two base tuples under all four None patterns.",
        "Variables are passed as arrays/DM, parameters as plain numbers (what the element layer does).",
        "DESIGN.md sections 3 (C15) and 8",
    ),
    "C16": (
        "exhaustive enumeration of (network program, symbolic-parameter subset incl. per-link parameters, declaration order, compilation variant); symbolic function at parameter values vs twin compiled with numbers",
        "Exhaustive within bounds: empty set, 12 singletons, the full set, round-robin pairs and per-link parameter sets on every network; all subsets of size <=2 (thorough: all 4096) and all declaration orders of two triples on the harness list; every result scalar (next states and flows) of the symbolic function at two parameter value sets equals the numeric twin; trailing argument names / stacked p follow the declared order; no free symbols.",
        "Lanes and turn rates never symbolic; tolerance 1e-9.",
        "DESIGN.md sections 3 (C16) and 8",
    ),
    "C17": (
        "full Cartesian product of admissible argument alphabets for the origin-flow primitives on both engines, plus bounded exhaustive network programs (fresh and edited in place) x admissible vectors; inequality oracles",
        "Exhaustive enumeration: every admissible (queue, demand, control, density, speed, capacity, T) tuple for mainstream, both metered variants and limited simplified origins on both engines, and the origin flows / next queues of every network on every admissible single-excursion vector (NumPy and compiled SX, also after in-place edits): 0 <= q <= d + w/T, q <= capacity, q = 0 at maximum density, w+ >= 0.",
        "Tolerance 1e-9; unlimited simplified ramps and ideal origins have no bound.",
        "DESIGN.md sections 3 (C17) and 8",
    ),
    "C18": (
        "exhaustive enumeration of shapes x controlled element positions x neutral/finite control settings x value vectors; metamorphic equalities and a monotonicity inequality between paired real networks",
        "Exhaustive within bounds: for every valid shape, every link as a VSL link (1..3 segments, every VSL-set option incl. empty and gapped) with infinite limits must equal the plain link (also on a second step from the same caller arrays, and under each single positivity-init option); a finite limit must not raise any next speed and must leave every other next state untouched; metered in/out with r=1 and limited simplified with infinite desired flow must coincide; a mainstream origin with limit inf, 1e6 or its first-segment speed must coincide; NumPy and compiled SX.",
        "The controlled element is the only deviation from the base configuration; tolerance 1e-12 / 1e-9.",
        "DESIGN.md sections 3 (C18) and 8",
    ),
    "C19": (
        "exhaustive enumeration of API histories (per-element init/step incl. failing attempts, Network.step variants, topology edits after stepping) with to_function observed in every reached state; stateless to a length, state-matching BFS beyond",
        "Bounded exhaustive exploration: all histories over 16 operations up to length 3 / 4 (SX and MX), BFS to depth 5 / 7 with states merged on a model key (initialised?, stepped with which parameters under which topology, which dependencies re-initialised or clamped since, failed attempts), and all histories up to length 5 / 7 on a minimal one-link family. In every state the model predicts RuntimeError or function; a returned function must have no free symbols and each element's results (on a vector with negative entries) must equal the NumPy twin of that element's most recent step.",
        "Two network families; staleness model from the C10 dependency relation.",
        "DESIGN.md sections 3 (C19) and 8",
    ),
}

# dimensions added by the later seeded-change waves (8-10); appended to the level text
ADDENDA = {
    "C01": "Further dimensions: partial initial conditions (nothing supplied as an empty dict, every element omitted / alone, every variable omitted; engine-created constant fill) after a fully supplied step, integer-dtype caller arrays, integer-typed parameters, user-defined subclasses of every element, edit mode 'params' (public attributes assigned after a step, speed-limit signs moved), 13 harness networks incl. 3-way split/merge and a diamond.",
    "C02": "Further dimensions: element-by-element stepping (second step), NumPy-array turn rates on repeated steps, integer-dtype caller arrays, edit mode 'params', the harness networks.",
    "C03": "Further dimensions: partial initial conditions with caller symbols, init/next positivity options on vectors with negatives, integer-dtype NumPy twin, step/compile/step/compile on one engine object.",
    "C04": "Further histories: positional to_function arguments, elements of user subclasses returning next states in reversed key order, every element sharing one name.",
    "C05": "Further variants: spare keyword arguments to to_function, edit mode 'params'.",
    "C06": "The smaller families are enumerated three times: distinct names, one shared name, user-defined subclasses of every element class; is_valid(True) positionally.",
    "C07": "Further dimensions: all step parameters symbolic and declared (with/without flow outputs), link-subset boundary vectors (every proper subset of links empty or standing), edit mode 'params', the larger harness networks.",
    "C08": "Explorer C: two networks made of the same element objects (k mutations each, k = 1, 2, and interleaved first/second/first histories); the alphabet has 23 mutating calls incl. generator forms and a four-entry bulk call.",
    "C10": "Also with partial initial conditions (every supply mode) on the compiled function.",
    "C11": "Each option set is also passed positionally and as truthy non-bool values (numpy.True_, 1); the extra flow outputs are compared too.",
    "C12": "Alphabet now 28 operations / 15 core operations: compilation with caller-held parameters and keyword dictionaries, public element attributes assigned between steps, fed-back steps compared with a fresh network; 11 networks incl. 3-way split and merge.",
    "C13": "20+ operations: probe elements (user subclasses recording the engine object every method is handed), a falsy explicit engine, two NumPy engines with different fills; 4 networks incl. a 3-way split.",
    "C15": "Plus the harvested family (every argument tuple the element layer passes while stepping the network family on the NumPy engine, incl. integer engine-created variables and integer-typed parameters, replayed on CasADi), every subset of signs of a 7-segment VSL link, and 0-d array parameters changed in place between two calls.",
    "C16": "Also compactness levels -1 and -3 and the call form that re-uses the step keyword dictionary (symbols included) without flow outputs.",
    "C17": "Also the second of two steps with different sampling times on the same objects, and edit mode 'params'.",
    "C18": "Also neutral engine-created limits after a step with finite limits, integer-dtype arrays, and 12-segment links with signs on two-digit segments.",
    "C19": "Three minimal families (one link; two links with an interior ramp; a merge of two links into a third).",
}

NOT_YET = "check not built yet (work in progress; see DESIGN.md section 7)"

ALL = [f"C{i:02d}" for i in range(1, 20)]


def main():
    checks = []
    for pid in ALL:
        if pid not in CHECKS:
            continue
        tech, text, note, ref = CHECKS[pid]
        if pid in ADDENDA:
            text = text + " " + ADDENDA[pid]
        checks.append({
            "property_id": pid,
            "quick_cmd": f"./check {pid} --tier quick",
            "thorough_cmd": f"./check {pid} --tier thorough",
            "evidence_file": f"/verif/evidence/{pid}.json",
            "replay_cmd_template": f"./check {pid} --replay {{path}}",
            "engine": "mc-explorer",
            "level_claimed": {"category": "model_checking", "text": text, "design_ref": ref},
            "level_note": note,
            "technique": tech,
        })
    man = {
        "version": 1,
        "setup_cmd": "cd /verif && ./setup.sh",
        "hooks": {
            "guard": "SYM_METANET_VERIF",
            "enable": "no source hooks are needed: every property is observable through the public API, the "
                      "graph object and engine proxies; ./check exports SYM_METANET_VERIF=1 for uniformity and binds "
                      "PYTHONPATH to /repo/src so that the current working tree is what runs",
            "baseline_off_cmd": BASELINE_OFF,
            "source_commits": [],
            "add_only": True,
        },
        "engines": [{
            "name": "mc-explorer",
            "path": "/verif/mc",
            "serves_properties": [c["property_id"] for c in checks],
            "kind_free_text": "hand-written explicit-state / stateless bounded explorer in Python that drives the real "
                              "sym_metanet code (API histories, network programs, value vectors) against reference "
                              "models, sharded over 16 processes",
        }],
        "checks": checks,
        "not_applicable": [{"property_id": p, "reason": NOT_YET} for p in ALL if p not in CHECKS],
        "notes": "All checks are bounded exhaustive explorations executed on the implementation itself "
                 "(see DESIGN.md). Fixed defects of the repository are listed in known_findings.json (status fixed).",
    }
    with open(os.path.join(HERE, "MANIFEST.json"), "w") as f:
        json.dump(man, f, indent=1)
        f.write("\n")
    print("MANIFEST.json:", len(checks), "checks,", len(man["not_applicable"]), "not yet claimed")


if __name__ == "__main__":
    main()
