"""Engine proxies: EngineBase subclasses that delegate to a real engine and count every call
(primitives of nodes/links/origins/destinations, var, vcat, max).  No repository hook needed."""
from __future__ import annotations

from . import env  # noqa: F401
from sym_metanet.engines.core import EngineBase


class _Group:
    def __init__(self, real, counter, prefix, log=None):
        object.__setattr__(self, "_real", real)
        object.__setattr__(self, "_counter", counter)
        object.__setattr__(self, "_prefix", prefix)
        object.__setattr__(self, "_log", log)

    def __getattr__(self, name):
        target = getattr(self._real, name)
        if not callable(target):
            return target
        counter, key = self._counter, f"{self._prefix}.{name}"

        log = self._log

        def wrapped(*a, **k):
            counter[key] = counter.get(key, 0) + 1
            if log is None:
                return target(*a, **k)
            frozen = (_freeze(a), _freeze(k))  # the arguments as they were BEFORE the call
            r = target(*a, **k)
            log.append((key, frozen[0], frozen[1], _freeze(r)))
            return r

        return wrapped


def _freeze(x):
    """A private copy of an argument/result structure (arrays are copied, containers rebuilt)."""
    import numpy as np
    if isinstance(x, np.ndarray):
        return x.copy()
    if isinstance(x, (list, tuple)):
        return type(x)(_freeze(y) for y in x)
    if isinstance(x, dict):
        return {k: _freeze(v) for k, v in x.items()}
    return x


class SpyEngine(EngineBase):
    def __init__(self, real, label, record=False):
        super().__init__()
        self.real = real
        self.label = label
        self.calls: dict[str, int] = {}
        self.log = [] if record else None  # (primitive, args, kwargs, result) of every primitive call, in order

    def total(self):
        return sum(self.calls.values())

    def reset(self):
        self.calls.clear()

    @property
    def nodes(self):
        return _Group(self.real.nodes, self.calls, "nodes", self.log)

    @property
    def links(self):
        return _Group(self.real.links, self.calls, "links", self.log)

    @property
    def origins(self):
        return _Group(self.real.origins, self.calls, "origins", self.log)

    @property
    def destinations(self):
        return _Group(self.real.destinations, self.calls, "destinations", self.log)

    def var(self, name, n=1, *args, **kwargs):
        self.calls["var"] = self.calls.get("var", 0) + 1
        return self.real.var(name, n, *args, **kwargs)

    def vcat(self, *arrays):
        self.calls["vcat"] = self.calls.get("vcat", 0) + 1
        return self.real.vcat(*arrays)

    def max(self, a, b):
        self.calls["max"] = self.calls.get("max", 0) + 1
        return self.real.max(a, b)

    def to_function(self, net, *args, **kwargs):
        self.calls["to_function"] = self.calls.get("to_function", 0) + 1
        return self.real.to_function(net, *args, **kwargs)

    def __repr__(self):
        return f"<spy {self.label}>"
