"""Engine proxies: EngineBase subclasses that delegate to a real engine and count every call
(primitives of nodes/links/origins/destinations, var, vcat, max).  No repository hook needed."""
from __future__ import annotations

from . import env  # noqa: F401
from sym_metanet.engines.core import EngineBase


class _Group:
    def __init__(self, real, counter, prefix):
        object.__setattr__(self, "_real", real)
        object.__setattr__(self, "_counter", counter)
        object.__setattr__(self, "_prefix", prefix)

    def __getattr__(self, name):
        target = getattr(self._real, name)
        if not callable(target):
            return target
        counter, key = self._counter, f"{self._prefix}.{name}"

        def wrapped(*a, **k):
            counter[key] = counter.get(key, 0) + 1
            return target(*a, **k)

        return wrapped


class SpyEngine(EngineBase):
    def __init__(self, real, label):
        super().__init__()
        self.real = real
        self.label = label
        self.calls: dict[str, int] = {}

    def total(self):
        return sum(self.calls.values())

    def reset(self):
        self.calls.clear()

    @property
    def nodes(self):
        return _Group(self.real.nodes, self.calls, "nodes")

    @property
    def links(self):
        return _Group(self.real.links, self.calls, "links")

    @property
    def origins(self):
        return _Group(self.real.origins, self.calls, "origins")

    @property
    def destinations(self):
        return _Group(self.real.destinations, self.calls, "destinations")

    def var(self, name, n=1, *args, **kwargs):
        self.calls["var"] = self.calls.get("var", 0) + 1
        return self.real.var(name, n, *args, **kwargs)

    def vcat(self, *arrays):
        self.calls["vcat"] = self.calls.get("vcat", 0) + 1
        return self.real.vcat(*arrays)

    def max(self, a, b):
        self.calls["max"] = self.calls.get("max", 0) + 1
        return self.real.max(a, b)

    def to_function(self, net, *args, **kwargs):
        self.calls["to_function"] = self.calls.get("to_function", 0) + 1
        return self.real.to_function(net, *args, **kwargs)

    def __repr__(self):
        return f"<spy {self.label}>"
