"""CLI of every registered check.

  ./check <ID> [--tier quick|thorough]      explore, write evidence, exit 0/1
  ./check <ID> --replay <file>              re-execute one stored case without the explorer

Exit status: 0 = the property held on everything explored (known findings are printed as
KNOWN-FINDING lines), 1 = at least one violation that /verif/known_findings.json does not
list (one `VIOLATION property=<id> replay=<path>` line each), 2 = the machinery itself
failed (never reported as a violation).
"""
from __future__ import annotations

import argparse
import importlib
import json
import os
import sys
import time


def main(argv=None):
    ap = argparse.ArgumentParser()
    ap.add_argument("prop")
    ap.add_argument("--tier", default=None, choices=["quick", "thorough"])
    ap.add_argument("--replay", default=None)
    ap.add_argument("--nproc", type=int, default=None)
    args = ap.parse_args(argv)

    from . import env

    tier = args.tier or (env.TIER if env.TIER in ("quick", "thorough") else "quick")
    seed = env.SEED
    nproc = args.nproc or env.NPROC
    prop = args.prop.upper()
    try:
        mod = importlib.import_module(f"mc.checks.{prop.lower()}")
    except ModuleNotFoundError as e:
        if e.name == f"mc.checks.{prop.lower()}":
            print(f"no check for {prop}")
            return 2
        raise

    from . import evidence, findings
    from .core import case_id, jsonable

    if args.replay:
        with open(args.replay) as f:
            doc = json.load(f)
        if doc["case"].get("unhandled"):
            print(f"this violation is an exception that escaped the explorer: {doc['case'].get('error')}")
            print(f"it has no stand-alone case; re-run ./check {prop} to reproduce it")
            return 1
        lines, violated = mod.replay(doc["case"])
        for ln in lines:
            print(ln)
        print(f"replay {prop}: {'VIOLATED' if violated else 'holds'} ({args.replay})")
        return 1 if violated else 0

    t0 = time.time()
    stats, coverage, assumptions = mod.explore(tier, seed, nproc)
    wall = time.time() - t0

    known = findings.load()
    rdir = os.path.join(env.VERIF, "replays" if env.SRC_ROOT == "/repo" else os.path.join("scratch", "replays"), prop)
    new_lines, known_lines = [], []
    n_new = 0
    for sig, lst in sorted(stats.violations.items()):
        ent = findings.match(known, prop, sig)
        if ent is not None:
            known_lines.append(
                f"KNOWN-FINDING: property={prop} {ent['what']} [signature {sig}; "
                f"{stats.sig_counts.get(sig, len(lst))} occurrences]"
            )
            continue
        n_new += stats.sig_counts.get(sig, len(lst))
        os.makedirs(rdir, exist_ok=True)
        for v in lst:
            doc = {"property": prop, "signature": sig, "message": v.message, "case": jsonable(v.case),
                   "tier": tier, "seed": seed}
            p = os.path.join(rdir, case_id({"s": sig, "c": v.case}) + ".json")
            with open(p, "w") as f:
                json.dump(doc, f, indent=1, sort_keys=True)
            new_lines.append((p, sig, v.message))
    # signatures beyond the kept ones still count as violations
    for sig, n in stats.sig_counts.items():
        if sig not in stats.violations and findings.match(known, prop, sig) is None:
            n_new += n

    cov = dict(coverage)
    cov.setdefault("states", stats.c.get("states", 0))
    cov.setdefault("transitions", stats.c.get("transitions", 0))
    cov.setdefault("traces_validated_against_impl", stats.c.get("executions", 0))
    cov.setdefault("samples", stats.samples)
    if not cov["samples"]:
        # (an exploration cut short by violations may not have reached its sampling point)
        first = next((v for lst in stats.violations.values() for v in lst), None)
        cov["samples"] = [{"note": "no regular sample was recorded; first violating case", "case": jsonable(first.case)}] if first \
            else [{"note": "no regular sample was recorded", "counters": dict(sorted(stats.c.items()))}]
    cov.setdefault("exhaustive", not stats.capped)
    cov["distinct_outcomes"] = len(stats.outcomes) + stats.outcomes_overflow
    cov["counters"] = dict(sorted(stats.c.items()))
    for k, s in stats.sets.items():
        cov.setdefault("distinct_" + k, len(s))
    cov["violation_signatures"] = dict(sorted(stats.sig_counts.items()))
    cov["nproc"] = nproc
    cov["source_root"] = env.SRC_ROOT
    if stats.capped:
        cov["cap_hit"] = True
    epath = evidence.write(prop, tier, seed, cov, assumptions, wall, stats.n_violations)
    ok, how = evidence.validate(epath)

    print(
        f"{prop} tier={tier} seed={seed} states={cov['states']} transitions={cov['transitions']} "
        f"executions={cov['traces_validated_against_impl']} outcomes={cov['distinct_outcomes']} "
        f"exhaustive={cov['exhaustive']} wall={wall:.1f}s evidence={epath} ({how})"
    )
    for ln in known_lines:
        print(ln)
    confirmed = {}
    for p, sig, msg in new_lines:
        if sig not in confirmed:
            # re-execute the stored case without the explorer: it must fail again (determinism guard)
            try:
                with open(p) as f:
                    case_ = json.load(f)["case"]
                again = True if case_.get("unhandled") else mod.replay(case_)[1]
            except Exception as e:  # noqa: BLE001
                again = None
                print(f"  note: replay of {p} raised {type(e).__name__}: {e}")
            confirmed[sig] = again
            if again is False:
                print(f"  note: [{sig}] did not reproduce when replayed once more from {p} - possible nondeterminism")
        print(f"  [{sig}] {msg}")
        print(f"VIOLATION property={prop} replay={p}")
    if n_new:
        if not ok:
            print(f"  note: evidence file does not validate: {how}")
        return 1
    if not ok:
        print(f"evidence file does not validate: {how}")
        return 2
    if cov["states"] < 1 or cov["transitions"] < 1:
        print("vacuous exploration (no states/transitions)")
        return 2
    return 1 if n_new else 0


if __name__ == "__main__":
    sys.exit(main())
