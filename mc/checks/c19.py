"""C19 — a function is only produced for a fully initialised and stepped network.

Space H: histories of per-element `init_vars`, per-element `step`, `Network.step` (2 sampling
times x 2 option sets) and a construction call that adds a spare link + destination, on a
network with a metered ramp, a VSL link, a plain link and a congested destination.
`to_function` is an observation made in the state each history reaches.

Model (per element): uninitialised | initialised | stepped(with which parameters, under which
topology); an element is *stale* when it, or an element whose variables its next state reads,
was re-initialised after its last step.
Oracle: (i) an element with declared variables uninitialised, or a stateful element not stepped
or stale  =>  RuntimeError;  (iii) otherwise a function IS returned;  (ii) a returned function
has no free symbols and each element's results equal the NumPy step of a twin network under
that element's most recent step parameters.
"""
from __future__ import annotations

import itertools

import casadi as cs
import numpy as np

from .. import env
from ..core import Stats, exc_site, exc_text
from ..harness import Compiled, close, np_step
from ..netgen import MODEL_PARAMS
from ..parallel import run_shards, shards_of
from ..spec import DestS, LinkS, NetSpec, OriginS, build, make_elements
from .. import valgen
import sym_metanet as M

P_SETS = [MODEL_PARAMS[0], MODEL_PARAMS[2]]
INIT_POS = {"positive_init_speed": True, "positive_init_density": True, "positive_init_queue": True}
NEXT_POS = {"positive_next_speed": True, "positive_next_density": True, "positive_next_queue": True}
ALLPOS = dict(INIT_POS, **NEXT_POS)

_L0 = LinkS(0, 1, 2, 3, 1.0, 180.0, 33.5, 102.0, 1.867, 1.0, (1,), 0.1)
_L1 = LinkS(1, 2, 2, 2, 0.8, 170.0, 30.0, 110.0, 2.1, 3.0)
_L2 = LinkS(1, 3, 1, 2, 1.3, 190.0, 36.0, 95.0, 1.6, 0.5)


def spec_for(spare, congest):
    links = (_L0, _L1) + ((_L2,) if spare else ())
    dests = (DestS(2, "cong" if congest else "free"),) + ((DestS(3, "free"),) if spare else ())
    return NetSpec(4 if spare else 3, links, (OriginS(0, "ramp_out", 2000.0),), dests)


SPEC_FULL = spec_for(True, True)
ELEMS = ["L0", "L1", "O0", "D2", "L2"]  # D2 = the congested destination that may replace the free one
STATEFUL = ["L0", "L1", "O0", "L2"]


def deps(e, spare, congest):
    if e == "L0":
        return ["L0", "O0", "L1"] + (["L2"] if spare else [])
    if e == "L1":
        return ["L1", "L0"] + (["D2"] if congest else [])
    if e == "O0":
        return ["O0", "L0"]
    if e == "L2":
        return ["L2", "L0"]
    return [e]


OPS = ([("init", e) for e in ("L0", "L1", "O0")] + [("step", e) for e in ("L0", "L1", "O0")]
       + [("netstep", p, o) for p in (0, 1) for o in (0, 1)]
       + [("spare",), ("init", "L2"), ("step", "L2"), ("congest",), ("init", "D2")]
       # Network.step with the ramp queue given as a plain Python number (a known initial queue), everything else symbolic
       + [("netstep_num",)])
W_NUM = 12.5


class Model:
    def __init__(self):
        self.spare = False
        self.congest = False
        self.gen = {e: 0 for e in ELEMS}  # 0 = uninitialised
        self.clamped = {e: False for e in ELEMS}
        self.stepped = {e: None for e in STATEFUL}  # (spare, congest, pidx, next_clamp, {dep: (gen, clamped)})
        self.attempted = {e: False for e in STATEFUL}  # a failed step attempt since the last successful step
        self.wnum = False  # the ramp queue currently is a plain number (not an input of the function)
        self._g = 0

    def in_net(self, e):
        if e == "L2":
            return self.spare
        if e == "D2":
            return self.congest
        return True

    def enabled(self, op):
        k = op[0]
        if k == "init":
            return self.in_net(op[1])
        if k == "step":
            return self.in_net(op[1])
        if k == "spare":
            return not self.spare
        if k == "congest":
            return not self.congest
        return True

    def will_fail(self, op):
        """A per-element step whose element or one of whose neighbours is uninitialised cannot be executed: the
        library raises, and that failed attempt must leave no trace (the element still counts as not stepped)."""
        return op[0] == "step" and not all(self.gen[x] > 0 for x in deps(op[1], self.spare, self.congest))

    def _record(self, e, pidx, nxt):
        self.attempted[e] = False
        self.stepped[e] = (self.spare, self.congest, pidx, nxt,
                           {x: (self.gen[x], self.clamped[x]) for x in deps(e, self.spare, self.congest)},
                           self.wnum and "O0" in deps(e, self.spare, self.congest))

    def apply(self, op):
        k = op[0]
        if k == "init":
            self._g += 1
            self.gen[op[1]] = self._g
            self.clamped[op[1]] = False
            if op[1] == "O0":
                self.wnum = False
        elif k == "netstep_num":
            self.wnum = True
            for e in ELEMS:
                if self.in_net(e):
                    self._g += 1
                    self.gen[e] = self._g
                    self.clamped[e] = False
            for e in STATEFUL:
                if self.in_net(e):
                    self._record(e, 0, (False,) * 3)
        elif k == "step":
            # calling an element's own step uses that method's defaults: Link.step_dynamics clamps the next
            # SPEED by default (positive_next_speed=True), nothing else
            self._record(op[1], 0, (op[1].startswith("L"), False, False))
        elif k == "netstep":
            self.wnum = False
            for e in ELEMS:
                if self.in_net(e):
                    self._g += 1
                    self.gen[e] = self._g
                    self.clamped[e] = bool(op[2]) and e != "D2"
            for e in STATEFUL:
                if self.in_net(e):
                    self._record(e, op[1], (bool(op[2]),) * 3)
        elif k == "spare":
            self.spare = True
        elif k == "congest":
            self.congest = True

    def stale(self, e):
        s = self.stepped[e]
        return s is not None and any(self.gen[x] != g for x, (g, c) in s[4].items())

    def verdict(self):
        for e in ELEMS:
            if self.in_net(e) and self.gen[e] == 0:
                return "raise", f"{e} not initialised"
        for e in STATEFUL:
            if self.in_net(e):
                if self.stepped[e] is None:
                    return "raise", f"{e} not stepped"
                if self.stale(e):
                    return "raise", f"{e} stale"
        return "function", ""

    def key(self):
        k = [self.spare, self.congest, self.wnum, tuple(sorted(self.attempted.items()))]
        for e in ELEMS:
            k.append((self.gen[e] > 0, self.clamped[e]))
        for e in STATEFUL:
            s = self.stepped[e]
            if s is None:
                k.append(None)
            else:
                k.append((s[0], s[1], s[2], s[3], tuple(sorted((x, self.gen[x] == g, c) for x, (g, c) in s[4].items())), s[5]))
        return tuple(k)


def real_setup(sym, equal_names=False):
    obj = make_elements(SPEC_FULL, names=({k: "e" for k in ("n0", "n1", "n2", "n3", "L0", "L1", "L2", "O0", "D2", "D3")}
                                          if equal_names else None))
    obj["D2free"] = M.Destination(name="e" if equal_names else "D2free")
    net = M.Network(name="net")
    n = [obj[f"n{i}"] for i in range(4)]
    net.add_path((n[0], obj["L0"], n[1], obj["L1"], n[2]), origin=obj["O0"], destination=obj["D2free"])
    eng = env.casadi_engine(sym)
    return net, obj, eng


def real_apply(net, obj, eng, op):
    k = op[0]
    if k == "init":
        obj[op[1]].init_vars(engine=eng)
    elif k == "step":
        obj[op[1]].step(net=net, engine=eng, **P_SETS[0])
    elif k == "netstep":
        net.step(engine=eng, **P_SETS[op[1]], **(ALLPOS if op[2] else {}))
    elif k == "netstep_num":
        net.step(engine=eng, init_conditions={obj["O0"]: {"w": W_NUM}}, **P_SETS[0])
    elif k == "spare":
        net.add_link(obj["n1"], obj["L2"], obj["n3"])
        net.add_destination(obj["D3"], obj["n3"])
    elif k == "congest":
        net.add_destination(obj["D2"], obj["n2"])


def _vector():
    v = valgen.base_vector(SPEC_FULL, 0)
    v[("L0", "v")] = [v[("L0", "v")][0], -v[("L0", "v")][1]]
    v[("L1", "v")] = [-v[("L1", "v")][0], v[("L1", "v")][1]]
    v[("L1", "rho")] = [v[("L1", "rho")][0], -v[("L1", "rho")][1]]
    v[("O0", "w")] = [-v[("O0", "w")][0]]
    v[("L2", "v")] = [-v[("L2", "v")][0]]
    return v


VAL = _vector()
_TWIN = {}


def twin_next(e, info):
    """Expected next state of element e under its most recent step: NumPy step of a twin network with the
    topology of that moment, inputs of the dependencies clamped where their states were clamped expressions."""
    spare, congest, pidx, nxt, depinfo, wnum = info
    key = (e, spare, congest, pidx, nxt, tuple(sorted((x, c) for x, (g, c) in depinfo.items())), wnum)
    if key not in _TWIN:
        spec = spec_for(spare, congest)
        have = {(k, v) for k, v, n, r in spec.variables()}
        val = {}
        for kv, lst in VAL.items():
            if kv not in have:
                continue
            c = depinfo.get(kv[0], (0, False))[1]
            val[kv] = [max(0.0, x) for x in lst] if (c and kv[1] in ("rho", "v", "w")) else list(lst)
            if wnum and kv == ("O0", "w"):
                val[kv] = [W_NUM]
        opts = {n: True for n, on in zip(("positive_next_speed", "positive_next_density", "positive_next_queue"), nxt) if on}
        out, _, _ = np_step(spec, val, P_SETS[pidx], opts=opts)
        _TWIN[key] = {kv: lst for kv, lst in out.items() if kv[0] == e}
    return _TWIN[key]


def run_history(hist, sym, st: Stats, equal_names=False):
    """Replays a history on fresh real objects and on the model; observes to_function.
    Returns (problems, model) or (None, None) if some op is disabled.  With equal_names every element is called
    "e" (readiness is about objects, not names); the numeric clause is then skipped (arguments are located by name)."""
    model = Model()
    net, obj, eng = real_setup(sym, equal_names)
    problems = []
    for op in hist:
        if not model.enabled(op):
            return None, None
        st.inc("transitions")
        if model.will_fail(op):
            try:
                real_apply(net, obj, eng, op)
            except Exception:  # noqa: BLE001
                st.inc("failed_steps_executed")
                model.attempted[op[1]] = True
                continue  # expected: the attempt fails and must leave no trace in what to_function sees
            return None, None  # the library executed it after all: outside the model, history dropped
        try:
            real_apply(net, obj, eng, op)
        except Exception as e:  # noqa: BLE001
            problems.append((f"C19/op-exception/{op[0]}/{exc_site(e)}/{type(e).__name__}", f"{op}: {exc_text(e)}"))
            return problems, model
        model.apply(op)
    want, why = model.verdict()
    st.inc("executions")
    try:
        F = eng.to_function(net, compact=0)
        got = "function"
    except RuntimeError as e:
        got = "raise"
        err = e
    except Exception as e:  # noqa: BLE001
        problems.append((f"C19/wrong-exception/{type(e).__name__}", f"to_function raised {exc_text(e)} (model: {want} {why})"))
        return problems, model
    st.outcome((want, got))
    if want == "raise" and got == "function":
        free = F.get_free()
        problems.append((f"C19/function-returned/{why.split()[-1] if why else ''}/{'free' if free else 'nofree'}",
                         f"{sym}: to_function returned a function although {why}; free symbols: {free}"))
    elif want == "function" and got == "raise":
        problems.append(("C19/unexpected-raise", f"{sym}: to_function raised {str(err)[:200]} although every element is initialised "
                         "and stepped and nothing is stale"))
    elif got == "function":
        free = F.get_free()
        spec = spec_for(model.spare, model.congest)
        n_states = sum(n for k_, v_, n in spec.state_vars())
        if free:
            problems.append(("C19/free-symbols", f"{sym}: returned function has free symbols {free}"))
        elif F.nnz_out() != n_states:
            problems.append(("C19/missing-next-states", f"{sym}: the returned function has {F.nnz_out()} result scalars {F.name_out()}, "
                             f"the network has {n_states} state scalars"))
        elif not equal_names:
            spec = spec_for(model.spare, model.congest)
            b = type("B", (), {})()
            b.spec, b.obj = spec, obj
            comp = Compiled(F, b)
            have = {(k, v) for k, v, n, r in spec.variables()}
            val = {k: x for k, x in VAL.items() if k in have}
            try:
                out = comp.eval_many([val])[0]
            except Exception as e:  # noqa: BLE001
                problems.append((f"C19/eval-exception/{type(e).__name__}", f"{sym}: {exc_text(e)}"))
                return problems, model
            for e_ in STATEFUL:
                if not model.in_net(e_):
                    continue
                info = model.stepped[e_]
                exp = twin_next(e_, info)
                for (key, var), arr in out.items():
                    if key != e_:
                        continue
                    for j, x in enumerate(arr):
                        st.inc("components_compared")
                        y = exp[(key, var)][j]
                        if y != y:
                            continue  # NaN in the twin (negative density under a power): max(0, NaN) is engine-defined
                        if not close(float(x), y):
                            problems.append((f"C19/not-most-recent-step/{e_}",
                                             f"{sym}: next {var}[{j}] of {key} = {float(x)!r}; its most recent step (P set {info[2]}, "
                                             f"next-clamps (speed, density, queue) {info[3]}, spare link {'present' if info[0] else 'absent'}, "
                                             f"congested destination {'present' if info[1] else 'absent'}, clamped inputs "
                                             f"{sorted(x_ for x_, (g, c) in info[4].items() if c)}) gives {y!r}"))
                            break
    return problems, model


# ---------------------------------------------------------------------------------------
# minimal families, explored by BFS with states merged on the model key.  Short histories reach states in which
# a per-element step was ATTEMPTED and failed, an element was initialised with a plain number, or a state-less
# element was stepped while a stateful one was not.
#   mini1: ramp O -> link L -> free destination
#   mini2: ideal origin I -> link A -> node with ramp R -> link B -> free destination
#   mini3: ideal origins I, J -> links A, B merging into link C -> free destination
# ---------------------------------------------------------------------------------------
def _mini1():
    a, b = M.Node(name="a"), M.Node(name="b")
    objs = {"L": M.Link(2, 2, 1.0, 180.0, 33.5, 102.0, 1.867, name="L"), "O": M.MeteredOnRamp(2000.0, name="O")}
    net = M.Network(name="mini1").add_path((a, objs["L"], b), origin=objs["O"], destination=M.Destination(name="D"))
    return net, objs


def _mini2():
    a, b, c = M.Node(name="a"), M.Node(name="b"), M.Node(name="c")
    objs = {"A": M.Link(2, 2, 1.0, 180.0, 33.5, 102.0, 1.867, name="A"), "B": M.Link(1, 2, 1.0, 180.0, 33.5, 102.0, 1.867, name="B"),
            "R": M.MeteredOnRamp(2000.0, name="R"), "I": M.Origin(name="I")}
    net = (M.Network(name="mini2").add_path((a, objs["A"], b, objs["B"], c), origin=objs["I"], destination=M.Destination(name="D"))
           .add_origin(objs["R"], b))
    return net, objs


def _mini3():
    a, b, c, d = (M.Node(name=x) for x in "abcd")
    objs = {"A": M.Link(2, 2, 1.0, 180.0, 33.5, 102.0, 1.867, name="A"), "B": M.Link(1, 1, 1.0, 180.0, 33.5, 102.0, 1.867, name="B"),
            "C": M.Link(2, 3, 1.0, 180.0, 33.5, 102.0, 1.867, name="C"), "I": M.Origin(name="I"), "J": M.Origin(name="J")}
    net = (M.Network(name="mini3").add_path((a, objs["A"], c, objs["C"], d), origin=objs["I"], destination=M.Destination(name="D"))
           .add_path((b, objs["B"], c), origin=objs["J"]))
    return net, objs


FAMILIES = {
    "mini1": dict(build=_mini1, stateful=("L", "O"), stateless=(), ramps=("O",), n_states={"L": 4, "O": 1},
                  deps={"L": ("L", "O"), "O": ("O", "L")}),
    "mini2": dict(build=_mini2, stateful=("A", "B", "R"), stateless=("I",), ramps=("R",), n_states={"A": 4, "B": 2, "R": 1},
                  deps={"A": ("A", "B"), "B": ("B", "A", "R"), "R": ("R", "B")}),
    # mini3: a merge - ideal origins I, J -> links A, B -> one node -> link C -> free destination (a link that enters a
    # node another link already leads to)
    "mini3": dict(build=_mini3, stateful=("A", "B", "C"), stateless=("I", "J"), ramps=(), n_states={"A": 4, "B": 2, "C": 4},
                  deps={"A": ("A", "C"), "B": ("B", "C"), "C": ("C", "A", "B")}),
}


def mini_ops(fam):
    F = FAMILIES[fam]
    return ([("init", e) for e in F["stateful"]] + [("init_num", e) for e in F["ramps"]]
            + [("step", e) for e in F["stateful"] + F["stateless"]] + [("netstep",)])


def run_mini(fam, hist, sym, st: Stats):
    """Replays one history on fresh objects of the family.  Returns (problems, key) or (None, None)."""
    F = FAMILIES[fam]
    net, objs = F["build"]()
    eng = env.casadi_engine(sym)
    gen = {e: 0 for e in F["stateful"]}
    num = {e: False for e in F["stateful"]}
    stepped = {e: None for e in F["stateful"]}
    attempted = {e: False for e in F["stateful"]}
    stateless_stepped = {e: False for e in F["stateless"]}
    g = 0
    problems = []
    for op in hist:
        st.inc("transitions")
        k = op[0]
        if k in ("init", "init_num"):
            if k == "init":
                objs[op[1]].init_vars(engine=eng)
            else:
                objs[op[1]].init_vars(init_conditions={"w": W_NUM}, engine=eng)
            g += 1
            gen[op[1]] = g
            num[op[1]] = k == "init_num"
        elif k == "step":
            e = op[1]
            if e in F["stateless"]:
                objs[e].step(net=net, engine=eng, **P_SETS[0])
                stateless_stepped[e] = True
                continue
            fails = not all(gen[x] > 0 for x in F["deps"][e])
            try:
                objs[e].step(net=net, engine=eng, **P_SETS[0])
                ok = True
            except Exception:  # noqa: BLE001
                ok = False
            if fails and ok:
                return None, None  # outside the model
            if not fails and not ok:
                problems.append(("C19/op-exception/step", f"{op} raised although everything it reads is initialised"))
                return problems, None
            if ok:
                stepped[e] = {x: gen[x] for x in F["deps"][e]}
                attempted[e] = False
            else:
                st.inc("failed_steps_executed")
                attempted[e] = True
        else:
            net.step(engine=eng, **P_SETS[0])
            for e in F["stateful"]:
                g += 1
                gen[e] = g
                num[e] = False
            for e in F["stateful"]:
                stepped[e] = {x: gen[x] for x in F["deps"][e]}
                attempted[e] = False
            for e in F["stateless"]:
                stateless_stepped[e] = True
    why = ""
    for e in F["stateful"]:
        if gen[e] == 0:
            why = f"{e} not initialised"
        elif stepped[e] is None:
            why = f"{e} not stepped (at most attempted)"
        elif any(gen[x] != v for x, v in stepped[e].items()):
            why = f"{e} stale"
        if why:
            break
    key = (tuple(sorted((e, gen[e] > 0, num[e], attempted[e],
                         None if stepped[e] is None else tuple(sorted((x, gen[x] == v) for x, v in stepped[e].items())))
                        for e in F["stateful"])), tuple(sorted(stateless_stepped.items())))
    st.inc("executions")
    try:
        Fn = eng.to_function(net, compact=0)
        got = "function"
    except RuntimeError:
        got = "raise"
    except Exception as e:  # noqa: BLE001
        problems.append((f"C19/wrong-exception/{type(e).__name__}", f"to_function raised {exc_text(e)} (model: {why or 'ready'})"))
        return problems, key
    st.outcome((fam, bool(why), got))
    n_states = sum(F["n_states"].values())
    if why and got == "function":
        problems.append((f"C19/function-returned/{why.split()[1]}/{'free' if Fn.get_free() else 'nofree'}",
                         f"{sym}: to_function returned {Fn} although {why}"))
    elif not why and got == "raise":
        problems.append(("C19/unexpected-raise", f"{sym}: to_function raised although every element is initialised and stepped"))
    elif not why and Fn.get_free():
        problems.append(("C19/free-symbols", f"{sym}: free symbols {Fn.get_free()}"))
    elif not why and Fn.nnz_out() != n_states:
        problems.append(("C19/missing-next-states", f"{sym}: function {Fn} has {Fn.nnz_out()} result scalars, the network has "
                         f"{n_states} state scalars"))
    return problems, key


def worker_mini(item):
    """BFS over one family with states merged on the model key."""
    fam, depth, sym = item
    st = Stats()
    ops = mini_ops(fam)
    seen = set()
    frontier = [()]
    for d in range(depth):
        nxt = []
        for hist in frontier:
            for op in ops:
                h2 = hist + (op,)
                problems, key = run_mini(fam, h2, sym, st)
                if problems is None:
                    continue
                for sig, msg in problems:
                    st.violation(sig, f"{fam} history {h2}: {msg}", {"history": h2, "sym": sym, "family": fam})
                if problems or key in seen:
                    continue
                seen.add(key)
                st.inc("states")
                nxt.append(h2)
        frontier = nxt
    st.inc(f"{fam}_states_{sym}", len(seen))
    return st


def worker_unmerged(item):
    firsts, length, sym = item
    st = Stats()
    for first in firsts:
        for rest in itertools.product(OPS, repeat=length - 1):
            hist = (first,) + rest
            problems, model = run_history(hist, sym, st)
            if problems is None:
                st.inc("histories_with_disabled_op")
                continue
            st.inc("states")
            if len(st.samples) < 1 and length >= 3 and model.verdict()[0] == "function":
                st.sample({"history": hist, "sym": sym, "model_verdict": model.verdict()})
            for sig, msg in problems:
                st.violation(sig, f"history {hist}: {msg}", {"history": hist, "sym": sym})
            if sym == "SX" and length <= 3:
                problems, model = run_history(hist, sym, st, equal_names=True)
                st.inc("states")
                for sig, msg in (problems or []):
                    st.violation(sig + "/equal-names", f"history {hist} (all elements named e): {msg}",
                                 {"history": hist, "sym": sym, "equal_names": True})
    return st


def _safe_worker_merged(item):
    try:
        return worker_merged(item)
    except Exception as e:  # noqa: BLE001
        from ..parallel import crash_stats
        return crash_stats(worker_merged, e), []


def worker_merged(item):
    hists, sym = item
    st = Stats()
    succ = []
    for hist in hists:
        for op in OPS:
            h2 = hist + (op,)
            problems, model = run_history(h2, sym, st)
            if problems is None:
                continue
            if problems:
                for sig, msg in problems:
                    st.violation(sig, f"history {h2}: {msg}", {"history": h2, "sym": sym})
                continue
            succ.append((model.key(), h2))
    return st, succ


def explore_merged(depth, sym, nproc, st_total):
    import multiprocessing as mp

    seen = {Model().key()}
    frontier = [()]
    levels = []
    done = 0
    with mp.get_context("fork").Pool(nproc) as pool:
        for d in range(1, depth + 1):
            if not frontier:
                break
            res = pool.map(_safe_worker_merged, [(sh, sym) for sh in shards_of(frontier, nproc * 4)], chunksize=1)
            nxt = []
            for st, succ in res:
                st_total.merge(st)
                for key, h in succ:
                    if key not in seen:
                        seen.add(key)
                        nxt.append(h)
            levels.append(len(nxt))
            frontier = nxt
            done = d
    return len(seen), levels, done


def explore(tier, seed, nproc):
    st = Stats()
    kmax = 3 if tier == "quick" else 4
    dmax = 5 if tier == "quick" else 7
    rot = seed % len(OPS)
    firsts = OPS[rot:] + OPS[:rot]
    per_len = {}
    for sym in ("SX", "MX"):
        problems, model = run_history((), sym, st)
        st.inc("states")
        for sig, msg in problems:
            st.violation(sig, f"empty history: {msg}", {"history": [], "sym": sym})
        for k in range(1, kmax + 1):
            r = run_shards(worker_unmerged, [([f], k, sym) for f in firsts], nproc)
            per_len[f"{sym}:{k}"] = r.c.get("states", 0)
            st.merge(r)
    kmini = 6 if tier == "quick" else 8
    st.merge(run_shards(worker_mini, [(fam, kmini, sym) for fam in FAMILIES for sym in ("SX", "MX")], nproc))
    merged = {}
    for sym in ("SX", "MX"):
        n, levels, done = explore_merged(dmax, sym, nproc, st)
        merged[sym] = {"distinct_model_states": n, "new_states_per_level": levels, "depth_completed": done}
        st.inc("states", n)
    cov = {"operations": len(OPS), "unmerged_history_length_completed": kmax, "unmerged_histories": per_len,
           "merged_bfs": merged, "mini_families": {"families": list(FAMILIES), "bfs_depth_completed": kmini},
           "rule": "every history over the 17 operations up to the length (those using a disabled operation are dropped and "
                   "counted), replayed on fresh real objects, to_function observed in the reached state; plus BFS with states "
                   "merged on the model key"}
    assumptions = [
        "merging on the model key is sound because a history leaves behind only which symbol objects sit in "
        "states/actions/disturbances/next_states, which the key captures up to renaming",
        "numeric comparison uses one admissible value vector (positivity clamps are the identity on it; C11 covers clamps)",
        "operations that the library cannot execute (stepping an element whose neighbours are uninitialised) are disabled",
    ]
    return st, cov, assumptions


def _detuple(x):
    return tuple(_detuple(y) for y in x) if isinstance(x, list) else x


def replay(case):
    st = Stats()
    hist = tuple(_detuple(op) for op in case["history"])
    if case.get("family") in FAMILIES:
        problems, _ = run_mini(case["family"], hist, case["sym"], st)
        problems = problems or []
        return [f"{case['family']} history ({case['sym']}): {hist}"] + [f"  {s}: {m}" for s, m in problems], bool(problems)
    problems, model = run_history(hist, case["sym"], st, bool(case.get("equal_names")))
    lines = [f"history ({case['sym']}):"] + [f"   {op}" for op in hist]
    if problems is None:
        return lines + ["history uses a disabled operation"], False
    lines.append(f"model verdict: {model.verdict()}")
    lines += [f"  {sig}: {msg}" for sig, msg in problems]
    return lines, bool(problems)
