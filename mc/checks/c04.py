"""C04 — function arguments/results follow the network's element order at every level.

Space N x configurations x construction orders x {SX, MX} x compact {0,1,2} x more_out x
parameters x positivity-init options.  Oracle: the layout model (mc/layout.py), computed from
the spec and the construction calls only:
  names and sizes of all arguments/results; number of scalar inputs; no free symbols;
  name_out[k] == name_in[k] + '+' with equal sizes for every state argument;
  numeric values (element-distinct inputs) located through the model == NumPy twin;
  feedback F(F(x)) fed back positionally == two NumPy steps;
  level equivalence: every result scalar is equal at compactness 0, 1 and 2.
"""
from __future__ import annotations

import casadi as cs
import numpy as np

from .. import env
from ..core import Stats, exc_site, exc_text
from ..fn import eval_layout, names_sizes
from ..harness import OPTS, close, np_step
from ..layout import Layout
from ..netgen import MODEL_PARAMS, all_specs, harness_specs
from ..parallel import run_shards, shards_of
from ..spec import NetSpec, build, default_order
from .. import valgen
from .c03 import PSYM as _PSYM3, PVAL as _PVAL3, uniform_param_spec

# C04 declares one more parameter that enters nothing: a declared parameter is an argument whether used or not
PSYM = _PSYM3 + ("spare",)
PVAL = dict(_PVAL3, spare=3.25)

INIT_OPTS = {"positive_init_speed": True, "positive_init_density": True, "positive_init_queue": True}
NEXT_OPTS = {"positive_next_speed": True, "positive_next_density": True, "positive_next_queue": True}


def opts_of(o):
    """variant flag -> options: 0/False none, 1/True positivity of the initial values, 2 positivity of the next values"""
    return {} if not o else (NEXT_OPTS if o == 2 else INIT_OPTS)


def orders(spec: NetSpec):
    o1 = default_order(spec)
    o2 = ([("dest", d.node) for d in reversed(spec.dests)] + [("origin", o.node) for o in reversed(spec.origins)]
          + [("link", i) for i in reversed(range(len(spec.links)))])
    o3 = [("links", tuple(range(len(spec.links))))] + [("origin", o.node) for o in spec.origins] + \
         [("dest", d.node) for d in spec.dests]
    return [("default", o1), ("reversed-implicit-nodes", o2), ("bulk-links", o3)]


def variant_sets(tier):
    """(sym, compact, more_out, symbolic parameters, positivity-init, history).  Compactness values outside
    {0, 1, 2} are documented aliases: <= 0 is level 0, > 1 is level 2."""
    full = [(s, c, m, p, False, 0) for s in ("SX",) for c in (0, 1, 2) for m in (False, True) for p in (False, True)]
    full += [("MX", c, True, True, False, 0) for c in (0, 1, 2)]
    full += [("SX", c, True, False, True, 0) for c in (0, 1, 2)] + [("MX", 0, False, False, True, 0), ("MX", 2, True, True, True, 0)]
    full += [("SX", -1, True, False, False, 0), ("SX", 3, True, True, False, 0), ("MX", 7, False, False, False, 0)]
    full += [("SX", 0, False, False, 2, 0), ("SX", 2, True, False, 2, 0), ("MX", 1, False, False, 2, 0)]  # positive_next_* on
    full += [("SX", c, False, False, False, 1) for c in (0, 1, 2)] + [("MX", 0, True, False, False, 1), ("SX", 2, True, False, True, 1),
                                                                        ("SX", 0, False, False, False, 2), ("MX", 2, True, False, False, 2)]
    # elements of user subclasses returning their next states in reversed key order; every element named "x"
    full += [("SX", 0, False, False, False, 3), ("MX", 2, True, False, False, 3), ("SX", 0, True, False, False, 4),
             ("SX", 0, False, False, False, 4), ("MX", 1, False, False, False, 4), ("SX", 2, True, False, False, 4)]
    reduced = [("SX", 1, True, False, False, 0), ("SX", 2, True, True, False, 0), ("MX", 2, False, False, False, 0),
               ("SX", 0, False, False, True, 0), ("SX", 1, False, False, False, 1)]
    if tier != "quick":
        full = [(s, c, m, p, o, 0) for s in ("SX", "MX") for c in (0, 1, 2) for m in (False, True) for p in (False, True)
                for o in (False, True)]
        full += [(s, c, m, False, False, 0) for s in ("SX", "MX") for c in (-3, -1, 3, 7) for m in (False, True)]
        full += [(s, c, m, False, 2, 0) for s in ("SX", "MX") for c in (0, 1, 2) for m in (False, True)]
        full += [(s, c, m, False, o, h) for s in ("SX", "MX") for c in (0, 1, 2) for m in (False, True) for o in (False, True)
                 for h in (1, 2)]
        full += [(s, c, m, False, False, h) for s in ("SX", "MX") for c in (0, 1, 2) for m in (False, True) for h in (3, 4)]
        reduced = [(s, c, True, p, o, 0) for s in ("SX", "MX") for c in (0, 1, 2) for p in (False, True) for o in (False, True)]
        reduced += [(s, c, False, False, False, 1) for s in ("SX", "MX") for c in (0, 1, 2)]
    return full, reduced


def user_conditions(built, XX):
    """Caller-supplied symbols, with the keys of every element's dictionary in REVERSED declaration order
    (speed before density, ...): a legal way of passing initial conditions."""
    ic = {}
    per = {}
    for key, var, n, role in built.spec.variables():
        per.setdefault(key, []).append((var, n))
    for key, lst in per.items():
        ic[built.obj[key]] = {var: XX.sym(f"{var}_{key}_user", n, 1) for var, n in reversed(lst)}
    return ic


def equal_names(spec):
    keys = [f"n{i}" for i in range(spec.n)] + spec.link_keys() + [f"O{o.node}" for o in spec.origins] + [f"D{d.node}" for d in spec.dests]
    return {k: "x" for k in keys}


HISTORIES = ("step", "step;step(user symbols)", "step(user symbols)", "step, elements of user subclasses returning next states in "
             "reversed key order", "step, every element named x")


def compile_variant(spec, order, sym, compact, more_out, symbolic, opts, P, hist=0):
    """hist 0: one step with the engine's own symbols; 1: that step, then a second step with caller-supplied
    symbols (reversed key order); 2: a single step with caller-supplied symbols."""
    eng = env.casadi_engine(sym)
    XX = getattr(cs, sym)
    syms = None
    override = None
    if symbolic:
        syms = {p: XX.sym(p) for p in PSYM}
        override = {(f"L{i}", p): syms[p] for i in range(len(spec.links)) for p in _PSYM3}
    if hist == 3:
        built = build(spec, order=order, override=override, subclass="reorder")
    elif hist == 4:
        built = build(spec, order=order, override=override, names=equal_names(spec))
    else:
        built = build(spec, order=order, override=override)
    o = opts_of(opts)
    if hist in (0, 1, 3, 4):
        built.net.step(engine=eng, **P, **o)
    if hist in (1, 2):
        built.net.step(init_conditions=user_conditions(built, XX), engine=eng, **P, **o)
    kw = dict(P) if more_out else {}
    if symbolic:
        kw["parameters"] = syms
    if hist in (1, 2):
        # compact and more_out given POSITIONALLY, in the documented order of to_function(net, compact, more_out, ...)
        return eng.to_function(built.net, compact, more_out, **kw), built
    return eng.to_function(built.net, compact=compact, more_out=more_out, **kw), built


def observed_var_order(built):
    out = {}
    for key, el in built.obj.items():
        if key.startswith("n"):
            continue
        out[key] = {"state": list(el.states or {}), "action": list(el.actions or {}),
                    "disturbance": list(el.disturbances or {})}
    return out


def two_numpy_steps(sp, order, val, P, opts):
    b = build(sp, order=order)
    n1, _, _ = np_step(sp, val, P, opts=opts_of(opts), built=b)
    val2 = dict(val)
    for k, v in n1.items():
        val2[k] = list(v)
    b2 = build(sp, order=order)
    n2, _, _ = np_step(sp, val2, P, opts=opts_of(opts), built=b2)
    return n1, n2


def check_spec(spec: NetSpec, label, st: Stats, plan):
    problems = []
    P = MODEL_PARAMS[plan["pset"]]
    vecs = [(l_, v) for l_, v in valgen.vectors(spec, plan["d"])]
    vals = [v for _, v in vecs]
    n_scal = sum(n for _, _, n, _ in spec.variables())
    full, reduced = plan["variants"]
    for oi, (oname, order) in enumerate(orders(spec)):
        level_values = {}
        np_cache = {}
        for (sym, compact, more_out, symbolic, opts, hist) in (full if oi == 0 else reduced):
            st.inc("transitions", 2)
            st.inc("functions_compiled")
            case = {"spec": spec.describe(), "config": label, "P": P, "order": oname, "sym": sym, "compact": compact,
                    "more_out": more_out, "symbolic": symbolic, "opts": opts, "hist": hist}
            tag = (f"{sym} compact={compact} more_out={more_out} params={symbolic} posinit={opts} order={oname} "
                   f"history={HISTORIES[hist]}")

            def bad(sig, msg):
                problems.append((sig, f"{tag}: {msg}", case))

            try:
                F, built = compile_variant(spec, order, sym, compact, more_out, symbolic, opts, P, hist)
            except Exception as e:  # noqa: BLE001
                bad(f"C04/exception/{exc_site(e)}/{type(e).__name__}", exc_text(e))
                continue
            lay = Layout(spec, order=order, compact=compact, more_out=more_out, pnames=PSYM if symbolic else (),
                         var_order=observed_var_order(built), names=equal_names(spec) if hist == 4 else None)
            if lay.var_order_problem:
                bad("C04/variables", lay.var_order_problem)
                continue
            nin, sin, nout, sout = names_sizes(F)
            ok = True
            if nin != lay.in_names:
                bad(f"C04/names-in/compact{compact}", f"argument names {nin}, model {lay.in_names}")
                ok = False
            if nout != lay.out_names:
                bad(f"C04/names-out/compact{compact}", f"result names {nout}, model {lay.out_names}")
                ok = False
            if ok and (sin != [len(s) for s in lay.in_slots] or sout != [len(s) for s in lay.out_slots]):
                bad(f"C04/sizes/compact{compact}", f"sizes in {sin} out {sout}, model {[len(s) for s in lay.in_slots]} "
                    f"{[len(s) for s in lay.out_slots]}")
                ok = False
            if F.nnz_in() != n_scal + (len(PSYM) if symbolic else 0):
                bad("C04/arg-count", f"{F.nnz_in()} scalar inputs, network has {n_scal} variables"
                    f"{' + ' + str(len(PSYM)) + ' parameters' if symbolic else ''}")
                ok = False
            free = F.get_free()
            if free:
                bad("C04/free-symbols", f"free symbols {free}")
            for k in range(lay.n_state_outputs):
                if k >= len(nout) or k >= len(nin) or nout[k] != nin[k] + "+" or sout[k] != sin[k]:
                    bad("C04/successor-naming", f"result {k} is {nout[k] if k < len(nout) else None}/{sout[k] if k < len(sout) else None}, "
                        f"argument {k} is {nin[k] if k < len(nin) else None}/{sin[k] if k < len(sin) else None}")
                    break
            if not ok:
                continue
            # numeric: values through the model == NumPy twin (built in the same order)
            sp = uniform_param_spec(spec) if symbolic else spec
            key = (symbolic, opts)
            if key not in np_cache:
                np_cache[key] = [two_numpy_steps(sp, order, v, P, opts) for v in vals]
                st.inc("executions", 2 * len(vals))
            try:
                outs = eval_layout(F, lay, vals, PVAL if symbolic else None)
            except Exception as e:  # noqa: BLE001
                bad(f"C04/eval-exception/{exc_site(e)}/{type(e).__name__}", exc_text(e))
                continue
            st.inc("executions", len(vals))
            for (vlabel, val), o, (n1, n2) in zip(vecs, outs, np_cache[key]):
                for slot, x in o.items():
                    if slot[0] == "x+":
                        e = n1[(slot[1], slot[2])][slot[3]]
                        st.inc("components_compared")
                        if not (close(x, e) or (x != x and e != e)):
                            bad(f"C04/value-mismatch/compact{compact}",
                                f"result scalar {slot} = {x!r}, NumPy twin {e!r} at {vlabel}")
                            break
                # level equivalence (same sym/params/opts/more_out, different compactness)
                lk = (sym, more_out, symbolic, opts, hist, vlabel)
                prev = level_values.get(lk)
                if prev is None:
                    level_values[lk] = (compact, o)
                else:
                    c0, o0 = prev
                    for slot, x in o.items():
                        y = o0.get(slot)
                        st.inc("level_pairs_compared")
                        if y is None or not (close(x, y, 1e-12) or (x != x and y != y)):
                            bad("C04/level-equivalence", f"scalar {slot}: {x!r} at compact={compact}, {y!r} at compact={c0} ({vlabel})")
                            break
            # feedback on the base vectors
            try:
                for (vlabel, val), (n1, n2) in list(zip(vecs, np_cache[key]))[:2]:
                    args = [cs.DM(a) if a else cs.DM(0, 1) for a in lay.pack(val, PVAL if symbolic else None)]
                    r1 = F(*args)
                    r1 = r1 if isinstance(r1, (list, tuple)) else [r1]
                    k = lay.n_state_outputs
                    r2 = F(*(list(r1[:k]) + args[k:]))
                    r2 = r2 if isinstance(r2, (list, tuple)) else [r2]
                    st.inc("executions", 2)
                    for m, sl in zip(r2[:k], lay.out_slots[:k]):
                        arr = np.array(m.full()).ravel()
                        for x, slot in zip(arr, sl):
                            e = n2[(slot[1], slot[2])][slot[3]]
                            if not (close(float(x), e) or (x != x and e != e)):
                                bad(f"C04/feedback/compact{compact}", f"F(F(x)) scalar {slot} = {float(x)!r}, two NumPy steps give {e!r}")
                                raise StopIteration
            except StopIteration:
                pass
            except Exception as e:  # noqa: BLE001
                bad(f"C04/feedback-exception/{exc_site(e)}/{type(e).__name__}", exc_text(e))
    return problems


def worker(item):
    plan, specs = item
    st = Stats()
    for label, spec in specs:
        st.inc("states")
        st.add_to("shapes", (spec.n, tuple((l.u, l.v) for l in spec.links)))
        problems = check_spec(spec, label, st, plan)
        st.outcome((spec.n, len(spec.links), len(spec.variables()), len(problems) == 0))
        if len(st.samples) < 1 and len(spec.links) >= 3 and len(spec.origins) >= 2:
            lay = Layout(spec, compact=1, more_out=True)
            st.sample({"config": label, "spec": spec.describe(), "compact1_in": lay.in_names, "compact1_out": lay.out_names,
                       "first_arg_slots": lay.in_slots[0]})
        for sig, msg, case in problems:
            st.violation(sig, f"{spec.short()}: {msg}", case)
    return st


def plans(tier, seed):
    pal = (seed + 1) % 3
    if tier == "quick":
        specs1 = [(lab, s) for _, lab, s in all_specs(3, 3, 1, pal)]
        specs0 = [(lab, s) for _, lab, s in all_specs(3, 3, 0, pal)]
        core = [("SX", 0, True, False, False, 0), ("SX", 1, True, True, False, 0), ("SX", 2, True, False, False, 0),
                ("MX", 2, False, True, False, 0), ("SX", 1, False, False, True, 0), ("SX", 0, False, False, False, 1),
                ("MX", 1, True, False, False, 1), ("SX", 3, False, False, False, 0), ("SX", 2, False, False, 2, 0),
                ("SX", 0, False, False, False, 3), ("MX", 2, True, False, False, 3), ("SX", 0, True, False, False, 4),
                ("MX", 1, False, False, False, 4)]
        jobs = [({"pset": 0, "d": 0, "variants": (core, core[1:3])}, [x for x in specs1 if x[0].startswith("dev:")]),
                ({"pset": 0, "d": 0, "variants": variant_sets("quick")},
                 specs0 + [(f"harness:{k}", s) for k, s in harness_specs(pal).items()])]
        bounds = {"shapes": "(n,m)<=(3,3): c<=1 with 8 core variants; base+uniform configurations with 38 variants",
                  "orders": 3, "vectors": "2 element-distinct base vectors", "palette": pal}
    else:
        a0 = [(lab, s) for _, lab, s in all_specs(3, 4, 0, pal)]
        a1 = [(lab, s) for _, lab, s in all_specs(3, 4, 1, pal) if lab.startswith("dev:")]
        b = [(lab, s) for _, lab, s in all_specs(4, 4, 0, pal) if s.n == 4]
        h = [(f"harness:{k}", s) for k, s in harness_specs(pal).items()]
        core = [("SX", 0, True, False, False, 0), ("SX", 1, True, True, False, 0), ("SX", 2, True, False, False, 0),
                ("MX", 2, False, True, False, 0), ("SX", 1, False, False, True, 0), ("SX", 0, False, False, False, 1),
                ("MX", 1, True, False, False, 1), ("SX", 3, False, False, False, 0), ("MX", 0, True, False, True, 2),
                ("SX", 0, False, False, False, 3), ("MX", 2, True, False, False, 3), ("SX", 0, True, False, False, 4),
                ("MX", 1, False, False, False, 4)]
        jobs = [({"pset": 0, "d": 0, "variants": variant_sets("thorough")}, a0 + h),
                ({"pset": 0, "d": 0, "variants": (variant_sets("quick")[0], core[1:4])}, a1),
                ({"pset": 1, "d": 0, "variants": (core, core[1:3])}, b),
                ({"pset": 0, "d": 1, "variants": variant_sets("quick")}, h)]
        bounds = {"shapes": "(3,4) base+uniform + harness: all variants (2 symbol types x 3 levels x more_out x parameters x "
                            "positivity-init, alias levels, 2 re-step histories) on the default order and a reduced set on two "
                            "other orders; (3,4) single-element deviations with 38 variants; 4-node shapes (4,4) with 9 core variants",
                  "palette": pal}
    return jobs, bounds


def explore(tier, seed, nproc):
    jobs, bounds = plans(tier, seed)
    st = Stats()
    nets = 0
    for plan, specs in jobs:
        nets += len(specs)
        st.merge(run_shards(worker, [(plan, sh) for sh in shards_of(specs, nproc * 8)], nproc))
    cov = {"bounds": bounds, "networks": nets,
           "rule": "a state is one network program x construction order; every listed variant is compiled by the real engine "
                   "and its names, sizes, free symbols, values, feedback and level equivalence are compared with the layout model"}
    assumptions = ["layout model mc/layout.py (documented concatenation rules; element order derived from the construction calls)",
                   "element-distinct input values make a permutation visible on the first vector"]
    return st, cov, assumptions


def replay(case):
    spec = NetSpec.from_json(case["spec"])
    st = Stats()
    v = (case["sym"], case["compact"], case["more_out"], case["symbolic"], case["opts"], case.get("hist", 0))
    plan = {"pset": MODEL_PARAMS.index(case["P"]) if case["P"] in MODEL_PARAMS else 0, "d": 0,
            "variants": ([v], [v])}
    problems = check_spec(spec, case.get("config", "?"), st, plan)
    problems = [p for p in problems if p[2]["order"] == case["order"]] or problems
    lines = [f"network {spec.short()}"] + [f"  {sig}: {msg}" for sig, msg, c in problems[:20]]
    return lines, bool(problems)
