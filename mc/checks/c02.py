"""C02 — vehicles are conserved by every step, network-wide and at every node.

Same N x V exploration as C01 (own run, positivity options off).  No reference model: the
balances are computed from the real step's own inputs and outputs.
  network:  sum_links sum_i (rho+ - rho) lam L + sum_queued (w+ - w)
            = T (sum_queued d + sum_ideal q_o - sum_{links into destinations} q_{m,N})
  node n:   sum_{m in O_n} q_{m,0} = sum_{mu in I_n} q_{mu,N} + q_o
            with q_{m,0} = (rho+_{m,1} - rho_{m,1}) lam L / T + q_{m,1} recovered from the first
            segment's density update and q_o = d - (w+ - w)/T recovered from the queue update
            (ideal origin: q_o = q_{m,1}).
"""
from __future__ import annotations

import math

import numpy as np

from .. import env
from ..core import Stats, exc_site, exc_text
from ..harness import Compiled, cs_compile, np_step
from ..netgen import MODEL_PARAMS, all_specs, harness_specs
from ..parallel import run_shards, shards_of
from ..spec import NetSpec, build, build_edited
from .. import valgen

INF = float("inf")
RTOL = 1e-9


def balances(spec: NetSpec, val, nxt, T):
    """Returns list of (signature, message) of violated balances."""
    out = []
    q = {}
    for i, l in enumerate(spec.links):
        rho, v = val[(f"L{i}", "rho")], val[(f"L{i}", "v")]
        q[i] = [rho[j] * v[j] * l.lam for j in range(l.N)]
    # recovered origin flows
    qo = {}
    for o in spec.origins:
        k = f"O{o.node}"
        li = spec.out_links(o.node)[0]
        if o.kind == "ideal":
            qo[o.node] = q[li][0]
        else:
            qo[o.node] = val[(k, "d")][0] - (float(nxt[(k, "w")][0]) - val[(k, "w")][0]) / T
    # network balance (in vehicles)
    lhs, scale = 0.0, 1.0
    for i, l in enumerate(spec.links):
        for j in range(l.N):
            dv = (float(nxt[(f"L{i}", "rho")][j]) - val[(f"L{i}", "rho")][j]) * l.lam * l.L
            lhs += dv
            scale = max(scale, abs(float(nxt[(f"L{i}", "rho")][j])) * l.lam * l.L)
    rhs = 0.0
    for o in spec.origins:
        k = f"O{o.node}"
        if o.kind == "ideal":
            rhs += T * qo[o.node]
            scale = max(scale, abs(T * qo[o.node]))
        else:
            lhs += float(nxt[(k, "w")][0]) - val[(k, "w")][0]
            rhs += T * val[(k, "d")][0]
            scale = max(scale, abs(T * val[(k, "d")][0]), abs(val[(k, "w")][0]))
    for d in spec.dests:
        li = spec.in_links(d.node)[0]
        rhs -= T * q[li][-1]
        scale = max(scale, abs(T * q[li][-1]))
    if not (abs(lhs - rhs) <= RTOL * scale * 10):
        out.append(("C02/network-balance", f"vehicle change {lhs!r} != T*(demand+ideal inflow-outflow) {rhs!r}"))
    # node balances (in veh/h)
    for n in range(spec.n):
        ins, outs = spec.in_links(n), spec.out_links(n)
        if not outs:
            continue
        into = 0.0
        scale = 1.0
        for m in outs:
            l = spec.links[m]
            q0 = (float(nxt[(f"L{m}", "rho")][0]) - val[(f"L{m}", "rho")][0]) * l.lam * l.L / T + q[m][0]
            into += q0
            scale = max(scale, abs(q0), abs(q[m][0]), abs(float(nxt[(f"L{m}", "rho")][0])) * l.lam * l.L / T)
        avail = sum(q[m][-1] for m in ins)
        org = spec.origin_at(n)
        if org is not None:
            avail += qo[n]
            scale = max(scale, abs(qo[n]))
        scale = max(scale, abs(avail))
        if not (abs(into - avail) <= RTOL * scale * 100):
            out.append((f"C02/node-balance/in{min(len(ins), 2)},out{min(len(outs), 2)},{org.kind if org else '-'}",
                        f"node {n}: flows into leaving links {into!r} != entering flows + origin flow {avail!r}"))
    return out


def finite(val):
    return all(abs(x) != INF for lst in val.values() for x in lst)


def check_spec(spec: NetSpec, label, st: Stats, plan):
    problems = []
    for pi in plan["psets"]:
        P = MODEL_PARAMS[pi]
        full = pi == plan["psets"][0]
        for vlabel, val in valgen.vectors(spec, plan["np_d"] if full else 0):
            if not finite(val):
                st.inc("skipped:infinite-control")
                continue
            st.inc("executions")
            st.inc("transitions")
            case = {"spec": spec.describe(), "config": label, "P": P, "val": {f"{k[0]}.{k[1]}": v for k, v in val.items()},
                    "engine": "numpy"}
            try:
                nxt, built, raw = np_step(spec, val, P)
            except Exception as e:  # noqa: BLE001
                problems.append((f"C02/exception/{exc_site(e)}/{type(e).__name__}", f"numpy: {exc_text(e)}", case))
                break
            for sig, msg in balances(spec, val, nxt, P["T"]):
                problems.append((sig, f"numpy: {msg}", case))
            st.inc("balances_checked", 1 + spec.n)
        if full:
            # read-mutate-read construction (every lookup read after every construction call)
            for vlabel, val in valgen.vectors(spec, 0):
                st.inc("executions")
                case = {"spec": spec.describe(), "config": label, "P": P, "val": {f"{k[0]}.{k[1]}": v for k, v in val.items()},
                        "engine": "numpy", "touch": True}
                try:
                    b = build(spec, touch=True)
                    np_step(spec, valgen.base_vector(spec, 1 if vlabel == "base0" else 0), P, built=b)
                    nxt, built, raw = np_step(spec, val, P, built=b)
                except Exception as e:  # noqa: BLE001
                    problems.append((f"C02/exception/{exc_site(e)}/{type(e).__name__}", f"numpy: {exc_text(e)}", case))
                    break
                for sig, msg in balances(spec, val, nxt, P["T"]):
                    problems.append((sig, f"numpy (lookups read during construction): {msg}", case))
                st.inc("balances_checked", 1 + spec.n)
        if full:
            # the same network reached by editing a different, already stepped network in place
            for (vlabel, val), emode in (list(zip(list(valgen.vectors(spec, 0)) * 2, ("links", "attachments", "replace", "params")))
                                            + [(list(valgen.vectors(spec, 0))[0], "params")]):
                st.inc("executions", 2)
                case = {"spec": spec.describe(), "config": label, "P": P, "val": {f"{k[0]}.{k[1]}": v for k, v in val.items()},
                        "engine": "numpy", "edited": emode}
                try:
                    eng_ = env.numpy_engine(np.float64(27.5))  # the SAME engine object before and after the edit
                    nxt, built, raw = np_step(spec, val, P, built=build_edited(spec, P, emode, engine=eng_), engine=eng_)
                except Exception as e:  # noqa: BLE001
                    problems.append((f"C02/exception/{exc_site(e)}/{type(e).__name__}", f"numpy (edited network): {exc_text(e)}", case))
                    break
                for sig, msg in balances(spec, val, nxt, P["T"]):
                    problems.append((sig, f"numpy (network edited in place after a step): {msg}", case))
                st.inc("balances_checked", 1 + spec.n)
        if full:
            # element-by-element stepping through the per-element API, in the network's own enumeration order (links BEFORE
            # origins), twice on the same objects: the balances of the SECOND step
            from ..harness import np_manual_steps
            for vlabel, val in valgen.vectors(spec, 0):
                if not finite(val):
                    continue
                st.inc("executions", 2)
                other = valgen.base_vector(spec, 1 if vlabel == "base0" else 0)
                case = {"spec": spec.describe(), "config": label, "P": P, "val": {f"{k[0]}.{k[1]}": v for k, v in val.items()},
                        "engine": "numpy", "manual": True}
                try:
                    nxt, _ = np_manual_steps(spec, [other, val], P)
                except Exception as e:  # noqa: BLE001
                    problems.append((f"C02/exception/{exc_site(e)}/{type(e).__name__}", f"numpy (element-by-element): {exc_text(e)}", case))
                    break
                for sig, msg in balances(spec, val, nxt, P["T"]):
                    problems.append((sig, f"numpy (element-by-element stepping, second step): {msg}", case))
                st.inc("balances_checked", 1 + spec.n)
            # whole-number states given as caller arrays of INTEGER dtype
            for vlabel, val in valgen.vectors(spec, 0):
                if not finite(val):
                    continue
                vi = {k: [float(round(x)) for x in v] for k, v in val.items()}
                st.inc("executions")
                case = {"spec": spec.describe(), "config": label, "P": P, "val": {f"{k[0]}.{k[1]}": v for k, v in vi.items()},
                        "engine": "numpy", "integer": True}
                try:
                    nxt = np_step(spec, vi, P, integer=True)[0]
                except Exception as e:  # noqa: BLE001
                    problems.append((f"C02/exception/{exc_site(e)}/{type(e).__name__}", f"numpy (integer caller arrays): {exc_text(e)}", case))
                    break
                for sig, msg in balances(spec, vi, nxt, P["T"]):
                    problems.append((sig, f"numpy (integer caller arrays): {msg}", case))
                st.inc("balances_checked", 1 + spec.n)
            # turn rates given as NumPy arrays (length-1 and 0-d) instead of plain numbers; two steps of the same objects
            if any(len(spec.out_links(n)) > 1 for n in range(spec.n)):
                for form in ("1d", "0d"):
                    ov = {(f"L{m}", "beta"): (np.array([float(l.beta)]) if form == "1d" else np.array(float(l.beta)))
                          for m, l in enumerate(spec.links)}
                    case = {"spec": spec.describe(), "config": label, "P": P, "engine": "numpy", "array_turnrates": form}
                    try:
                        b_ = build(spec, override=ov)
                        for vlabel, val in list(valgen.vectors(spec, 0)) * 2:
                            if not finite(val):
                                continue
                            st.inc("executions")
                            nxt = np_step(spec, val, P, built=b_)[0]
                            for sig, msg in balances(spec, val, nxt, P["T"]):
                                problems.append((sig, f"numpy (turn rates given as {form} arrays, repeated steps): {msg}",
                                                 dict(case, val={f"{k[0]}.{k[1]}": v for k, v in val.items()})))
                            st.inc("balances_checked", 1 + spec.n)
                    except Exception as e:  # noqa: BLE001
                        problems.append((f"C02/exception/{exc_site(e)}/{type(e).__name__}", f"numpy (array turn rates): {exc_text(e)}", case))
        for sym in plan["cs_sym"]:
            st.inc("transitions", 2)
            try:
                F, built, eng = cs_compile(spec, sym, P, compact=0, more_out=True)
                comp = Compiled(F, built)
            except Exception as e:  # noqa: BLE001
                problems.append((f"C02/exception/{exc_site(e)}/{type(e).__name__}", f"{sym}: {exc_text(e)}",
                                 {"spec": spec.describe(), "config": label, "P": P, "engine": sym}))
                continue
            cvecs = [(l_, v) for l_, v in valgen.vectors(spec, plan["cs_d"] if full else 0) if finite(v)]
            for k0 in range(0, len(cvecs), 4096):
                chunk = cvecs[k0:k0 + 4096]
                outs = comp.eval_many([v for _, v in chunk])
                st.inc("executions", len(chunk))
                for (vlabel, val), o in zip(chunk, outs):
                    case = {"spec": spec.describe(), "config": label, "P": P,
                            "val": {f"{k[0]}.{k[1]}": v for k, v in val.items()}, "engine": sym}
                    for sig, msg in balances(spec, val, o, P["T"]):
                        problems.append((sig, f"{sym}: {msg}", case))
                    st.inc("balances_checked", 1 + spec.n)
    return problems


def worker(item):
    plan, specs = item
    st = Stats()
    for label, spec in specs:
        st.inc("states")
        st.add_to("shapes", (spec.n, tuple((l.u, l.v) for l in spec.links)))
        problems = check_spec(spec, label, st, plan)
        st.outcome((spec.n, len(spec.links), len(spec.origins), len(problems) == 0))
        if len(st.samples) < 1 and len(spec.links) >= 3 and len(spec.origins) >= 1:
            val = valgen.base_vector(spec, 0)
            st.sample({"config": label, "spec": spec.describe(), "P": MODEL_PARAMS[0],
                       "val": {f"{k[0]}.{k[1]}": v for k, v in val.items()}})
        for sig, msg, case in problems:
            st.violation(sig, f"{spec.short()}: {msg}", case)
    return st


def plans(tier, seed):
    pal = (seed + 1) % 3
    if tier == "quick":
        jobs = [({"np_d": 1, "cs_d": 1, "psets": [0, 1], "cs_sym": ["SX"]},
                 [(lab, s) for _, lab, s in all_specs(3, 3, 1, pal)] + [(f"harness:{k}", s) for k, s in harness_specs(pal).items()])]
        bounds = {"shapes": "(n,m)<=(3,3) + the harness list (3-way splits and merges, diamond, 12-segment links)", "config_deviation": 1, "value_deviation": 1, "palette": pal}
    else:
        a = [(lab, s) for _, lab, s in all_specs(3, 4, 1, pal)]
        a2 = [(lab, s) for _, lab, s in all_specs(3, 3, 2, pal)]
        b = [(lab, s) for _, lab, s in all_specs(4, 4, 1, pal) if s.n == 4]
        c = [(lab, s) for _, lab, s in all_specs(3, 3, 0, (pal + 1) % 3)]
        jobs = [
            ({"np_d": 1, "cs_d": 1, "psets": [0, 1, 2, 3], "cs_sym": ["SX", "MX"]}, a),
            ({"np_d": 1, "cs_d": 0, "psets": [0], "cs_sym": ["SX"]}, a2),
            ({"np_d": 1, "cs_d": 1, "psets": [0], "cs_sym": ["SX"]}, b),
            ({"np_d": 0, "cs_d": 2, "psets": [0], "cs_sym": ["SX"]}, c),
        ]
        bounds = {"shapes": "(3,4) c<=1 SX+MX with 4 parameter sets; (3,3) c<=2; 4-node shapes (4,4) c<=1; (3,3) base+uniform "
                            "with pair excursions", "palette": pal}
    return jobs, bounds


def explore(tier, seed, nproc):
    jobs, bounds = plans(tier, seed)
    st = Stats()
    nets = 0
    for plan, specs in jobs:
        nets += len(specs)
        st.merge(run_shards(worker, [(plan, sh) for sh in shards_of(specs, nproc * 8)], nproc))
    cov = {"bounds": bounds, "networks": nets,
           "rule": "a state is one network program; every real step / evaluation is followed by the network balance and "
                   "one balance per node, computed from the step's own inputs and outputs"}
    assumptions = ["vectors with infinite controls are skipped (inf - inf is undefined)",
                   "tolerance 1e-9 relative to the largest term of each balance",
                   "networks above the (n, m) bound are not built"]
    return st, cov, assumptions


def replay(case):
    spec = NetSpec.from_json(case["spec"])
    P = case["P"]
    val = {tuple(k.split(".")): [float(x) for x in v] for k, v in case["val"].items()}
    if case.get("integer"):
        nxt = np_step(spec, val, P, integer=True)[0]
    elif case.get("manual"):
        from ..harness import np_manual_steps
        nxt, _ = np_manual_steps(spec, [valgen.base_vector(spec, 1), val], P)
    elif case.get("array_turnrates"):
        form = case["array_turnrates"]
        ov = {(f"L{m}", "beta"): (np.array([float(l.beta)]) if form == "1d" else np.array(float(l.beta))) for m, l in enumerate(spec.links)}
        b_ = build(spec, override=ov)
        for _ in range(3):
            nxt = np_step(spec, val, P, built=b_)[0]
    elif case.get("engine", "numpy") == "numpy":
        nxt, built, raw = np_step(spec, val, P, built=(build_edited(spec, P, case["edited"] if isinstance(case.get("edited"), str) else "links") if case.get("edited")
                                                        else build(spec, touch=bool(case.get("touch")))))
    else:
        F, built, eng = cs_compile(spec, case["engine"], P, compact=0, more_out=True)
        nxt = Compiled(F, built).eval_many([val])[0]
    res = balances(spec, val, nxt, P["T"])
    lines = [f"network {spec.short()} engine={case.get('engine')}", f"inputs: {case['val']}"]
    lines += [f"  {sig}: {msg}" for sig, msg in res]
    return lines, bool(res)
