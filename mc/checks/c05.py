"""C05 — extra flow outputs are the flows the state update actually used.

Space N x configurations x V restricted to more_out=True: all origin kinds, all compactness
levels, both symbol types, positivity-init options on/off (with negative inputs when on).
Oracle (self-consistency of one call's own inputs and outputs):
  reported link flow q == (clamped) rho * v * lanes of the input segment;
  for every queued origin: w+ == w(clamped) + T (d - reported q_o);
  for the link fed by an origin's node: rho+_1 == rho_1 + T/(lam L) (share * (sum entering
  last-segment reported flows + reported q_o) - reported q_1).
"""
from __future__ import annotations

import casadi as cs

from .. import env
from ..core import Stats, exc_site, exc_text
from ..fn import eval_layout
from ..harness import close
from ..layout import Layout
from ..netgen import MODEL_PARAMS, all_specs, harness_specs
from ..parallel import run_shards, shards_of
from ..spec import NetSpec, build, build_edited
from .. import valgen
from .c04 import INIT_OPTS

INF = float("inf")


def consistency(spec: NetSpec, val, o, P, clamp):
    """o: {slot: value}.  Returns [(sig, msg)]."""
    T = P["T"]
    out = []

    def inp(key, var, j):
        x = val[(key, var)][j]
        if clamp and var in ("rho", "v", "w"):
            x = max(0.0, x)
        return x

    for i, l in enumerate(spec.links):
        for j in range(l.N):
            rep = o[("q", f"L{i}", j)]
            exp = inp(f"L{i}", "rho", j) * inp(f"L{i}", "v", j) * l.lam
            if not close(rep, exp):
                out.append(("C05/link-flow", f"reported q[{j}] of L{i} = {rep!r}, rho*v*lanes of the input = {exp!r}"))
    for org in spec.origins:
        k = f"O{org.node}"
        qo = o[("q_o", k)]
        if org.kind != "ideal":
            wn = o[("x+", k, "w", 0)]
            exp = inp(k, "w", 0) + T * (val[(k, "d")][0] - qo)
            if abs(qo) != INF and not close(wn, exp, 1e-8):
                out.append((f"C05/queue/{org.kind}", f"w+ of {k} = {wn!r} but w + T(d - reported q_o) = {exp!r} (q_o = {qo!r})"))
        # density balance of the fed link with the reported origin flow
        li = spec.out_links(org.node)[0]
        l = spec.links[li]
        ins = spec.in_links(org.node)
        Q = sum(o[("q", f"L{m}", spec.links[m].N - 1)] for m in ins) + qo
        share = l.beta / sum(spec.links[m].beta for m in spec.out_links(org.node))
        exp = inp(f"L{li}", "rho", 0) + T / (l.lam * l.L) * (share * Q - o[("q", f"L{li}", 0)])
        got = o[("x+", f"L{li}", "rho", 0)]
        if abs(qo) != INF and not close(got, exp, 1e-8):
            out.append((f"C05/density-balance/{org.kind}", f"rho+[0] of L{li} = {got!r}, balance with the reported flows gives {exp!r}"))
    return out


# names of element attributes / primitive arguments that a caller's dictionary of constants may well contain
SPARE = {"lanes": 7, "lam": 7, "L": 9.5, "rho_max": 999.0, "rho_crit": 5.5, "v_free": 7.5, "a": 3.3, "C": 1.0, "turnrate": 0.3,
         "alpha": 0.9, "N": 9, "rho": 1.0, "v": 1.0, "q": 1.0, "w": 1.0, "d": 1.0, "r": 0.1, "delta": 0.5, "phi": 9.0}


def check_spec(spec: NetSpec, label, st: Stats, plan):
    problems = []
    P = MODEL_PARAMS[plan["pset"]]
    for opts in (False, True):
        vecs = list(valgen.vectors(spec, plan["d"], negatives=opts))
        vals = [v for _, v in vecs]
        for sym, compact in plan["variants"]:
            st.inc("transitions", 2)
            case = {"spec": spec.describe(), "config": label, "P": P, "sym": sym, "compact": compact, "opts": opts}
            try:
                eng = env.casadi_engine(sym)
                built = build(spec)
                built.net.step(engine=eng, **P, **(INIT_OPTS if opts else {}))
                F = eng.to_function(built.net, compact=compact, more_out=True, **P)
                lay = Layout(spec, compact=compact, more_out=True)
                outs = eval_layout(F, lay, vals)
            except Exception as e:  # noqa: BLE001
                problems.append((f"C05/exception/{exc_site(e)}/{type(e).__name__}",
                                 f"{sym} compact={compact} posinit={opts}: {exc_text(e)}", case))
                continue
            st.inc("executions", len(vals))
            for (vlabel, val), o in zip(vecs, outs):
                st.inc("relations_checked", sum(l.N for l in spec.links) + 2 * len(spec.origins))
                for sig, msg in consistency(spec, val, o, P, opts):
                    problems.append((sig, f"{sym} compact={compact} posinit={opts}: {msg} at {vlabel}",
                                     dict(case, val={f"{k[0]}.{k[1]}": v for k, v in val.items()})))
    base = [(l_, v) for l_, v in valgen.vectors(spec, 0)]
    # every element called "x": names are free, the reported flows must not depend on them
    for sym, compact in (("SX", 1), ("MX", 2)):
        st.inc("transitions", 3)
        case = {"spec": spec.describe(), "config": label, "P": P, "sym": sym, "compact": compact, "opts": False, "names": "all-equal"}
        try:
            keys = [f"n{i}" for i in range(spec.n)] + spec.link_keys() + [f"O{o.node}" for o in spec.origins] + \
                   [f"D{d.node}" for d in spec.dests]
            eng = env.casadi_engine(sym)
            built = build(spec, names={k: "x" for k in keys})
            built.net.step(engine=eng, **P)
            F = eng.to_function(built.net, compact=compact, more_out=True, **P)
            outs = eval_layout(F, Layout(spec, compact=compact, more_out=True), [v for _, v in base])
        except Exception as e:  # noqa: BLE001
            problems.append((f"C05/equal-names/exception/{exc_site(e)}/{type(e).__name__}", f"{sym} compact={compact}, all elements "
                             f"named x: {exc_text(e)}", case))
            continue
        st.inc("executions", len(base))
        for (vlabel, val), o in zip(base, outs):
            for sig, msg in consistency(spec, val, o, P, False):
                problems.append((sig, f"{sym} compact={compact}, all elements named x: {msg} at {vlabel}",
                                 dict(case, val={f"{k[0]}.{k[1]}": v for k, v in val.items()})))
    # spare keyword arguments to to_function that no flow law of this network takes (a caller splatting one dictionary of
    # constants, as the repository's own tests do): the reported flows are still the ones the update used
    for sym, compact in plan["variants"][:1]:
        st.inc("transitions", 2)
        case = {"spec": spec.describe(), "config": label, "P": P, "sym": sym, "compact": compact, "opts": False, "spare": True}
        try:
            eng = env.casadi_engine(sym)
            built = build(spec)
            built.net.step(engine=eng, **P)
            F = eng.to_function(built.net, compact=compact, more_out=True, **P, **{k: v for k, v in SPARE.items() if k not in P})
            outs = eval_layout(F, Layout(spec, compact=compact, more_out=True), [v for _, v in base])
        except Exception as e:  # noqa: BLE001
            problems.append((f"C05/exception/{exc_site(e)}/{type(e).__name__}", f"{sym} spare keyword arguments: {exc_text(e)}", case))
            continue
        st.inc("executions", len(base))
        for (vlabel, val), o in zip(base, outs):
            for sig, msg in consistency(spec, val, o, P, False):
                problems.append((sig, f"{sym} compact={compact}, spare keyword arguments {sorted(SPARE)}: {msg} at {vlabel}",
                                 dict(case, val={f"{k[0]}.{k[1]}": v for k, v in val.items()})))
    # the same network reached by editing another, already stepped network in place (non-initial state)
    for emode in ("links", "attachments", "replace", "params"):
        sym, compact = plan["variants"][0]
        st.inc("transitions", 4)
        case = {"spec": spec.describe(), "config": label, "P": P, "sym": sym, "compact": compact, "opts": False, "edited": emode}
        try:
            eng = env.casadi_engine(sym)
            built = build_edited(spec, P, emode, engine=eng)
            built.net.step(engine=eng, **P)
            F = eng.to_function(built.net, compact=compact, more_out=True, **P)
            outs = eval_layout(F, Layout(spec, compact=compact, more_out=True), [v for _, v in base])
        except Exception as e:  # noqa: BLE001
            problems.append((f"C05/exception/{exc_site(e)}/{type(e).__name__}", f"{sym} network edited in place ({emode}): "
                             f"{exc_text(e)}", case))
            continue
        st.inc("executions", len(base))
        for (vlabel, val), o in zip(base, outs):
            for sig, msg in consistency(spec, val, o, P, False):
                problems.append((sig, f"{sym} compact={compact}, network edited in place ({emode}) after a step: {msg} at {vlabel}",
                                 dict(case, val={f"{k[0]}.{k[1]}": v for k, v in val.items()})))
    return problems


def worker(item):
    plan, specs = item
    st = Stats()
    for label, spec in specs:
        st.inc("states")
        st.add_to("shapes", (spec.n, tuple((l.u, l.v) for l in spec.links)))
        problems = check_spec(spec, label, st, plan)
        st.outcome((spec.n, len(spec.links), tuple(sorted(o.kind for o in spec.origins)), len(problems) == 0))
        if len(st.samples) < 1 and len(spec.origins) >= 2:
            st.sample({"config": label, "spec": spec.describe()})
        for sig, msg, case in problems:
            st.violation(sig, f"{spec.short()}: {msg}", case)
    return st


def plans(tier, seed):
    pal = (seed + 2) % 3
    if tier == "quick":
        v = [("SX", 0), ("SX", 1), ("SX", 2), ("MX", 0), ("MX", 2)]
        jobs = [({"pset": 0, "d": 1, "variants": v}, [(lab, s) for _, lab, s in all_specs(3, 3, 1, pal)])]
        bounds = {"shapes": "(n,m)<=(3,3)", "config_deviation": 1, "value_deviation": 1, "variants": v, "palette": pal}
    else:
        v = [(s, c) for s in ("SX", "MX") for c in (0, 1, 2)]
        a = [(lab, s) for _, lab, s in all_specs(3, 4, 1, pal)]
        b = [(lab, s) for _, lab, s in all_specs(4, 4, 0, pal) if s.n == 4]
        jobs = [({"pset": 0, "d": 1, "variants": v[:3]}, a), ({"pset": 2, "d": 1, "variants": [("MX", 1)]}, b),
                ({"pset": 1, "d": 0, "variants": v}, a)]
        bounds = {"shapes": "(3,4) c<=1 (SX at 3 levels with single excursions; SX+MX at 3 levels on base vectors), 4-node shapes "
                            "(4,4) base+uniform", "value_deviation": 1, "palette": pal}
    return jobs, bounds


def explore(tier, seed, nproc):
    jobs, bounds = plans(tier, seed)
    st = Stats()
    nets = 0
    for plan, specs in jobs:
        nets += len(specs)
        st.merge(run_shards(worker, [(plan, sh) for sh in shards_of(specs, nproc * 8)], nproc))
    cov = {"bounds": bounds, "networks": nets,
           "rule": "a state is one network program; each is compiled with more_out=True (plain and with positivity-init "
                   "options) and evaluated on every vector; reported flows are checked against the same call's inputs and "
                   "next states"}
    assumptions = ["results are located through the layout model (checked by C04)",
                   "the same T is forwarded to to_function as was used for the step (a different T is a caller error)",
                   "relations involving an infinite reported flow (unlimited simplified ramp with q = inf) are skipped"]
    return st, cov, assumptions


def replay(case):
    spec = NetSpec.from_json(case["spec"])
    st = Stats()
    plan = {"pset": MODEL_PARAMS.index(case["P"]) if case["P"] in MODEL_PARAMS else 0, "d": 1,
            "variants": [(case["sym"], case["compact"])]}
    problems = [p for p in check_spec(spec, "?", st, plan) if p[2]["opts"] == case["opts"]]
    lines = [f"network {spec.short()}"] + [f"  {sig}: {msg}" for sig, msg, c in problems[:20]]
    return lines, bool(problems)
