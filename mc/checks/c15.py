"""C15 — both engines compute the same value for every model primitive.

Space V per primitive: the full Cartesian product of the argument alphabets (for step_speed,
with 16 arguments: every excursion of <= 3 arguments from two base tuples, times the four
None-patterns of the merging / lane-drop groups), in the argument shapes the element layer
produces (0-d, length-1, length-N NumPy arrays vs casadi.DM columns).
Oracle: |numpy - casadi| within tolerance, and both finite whenever the arguments are
admissible and the primitive's own 0/0 does not occur.
"""
from __future__ import annotations

import itertools

import casadi as cs
import numpy as np

from .. import env
from ..core import Stats, exc_site, exc_text
from ..harness import close
from ..parallel import run_shards, shards_of

INF = float("inf")
T_ = 10 / 3600


def NE():
    return env.numpy_engine()


def CE():
    return env.casadi_engine("SX")


def to_np(x, shape):
    """x: float or list; shape in {'0d','1d'} for scalars; lists become 1-d arrays."""
    if isinstance(x, (list, tuple)):
        return np.array(x, dtype=float)
    if x is None or isinstance(x, str):
        return x
    return np.array(float(x)) if shape == "0d" else np.array([float(x)])


def to_dm(x):
    if isinstance(x, (list, tuple)):
        return cs.DM(list(x))
    if x is None or isinstance(x, str):
        return x
    return cs.DM(float(x))


def flat(r):
    if isinstance(r, (cs.DM,)):
        return [float(v) for v in np.array(r.full()).ravel()]
    return [float(v) for v in np.atleast_1d(np.asarray(r, dtype=float)).ravel()]


# ---------------------------------------------------------------------------------------
# case generators: yield (args tuple, kwargs, admissible_and_defined, note)
# ---------------------------------------------------------------------------------------
RHO = [0.0, 16.75, 33.5, 106.75, 180.0]
V = [0.0, 3.06, 40.8, 81.6, 112.2]
Q = [0.0, 500.0, 3000.0]


def vecs(alpha, n):
    return itertools.product(alpha, repeat=n)


def gen_upstream_flow():
    for n in (1, 2, 3):
        for ql in vecs(Q, n):
            for betas in ((1.0,), (1.0, 3.0), (0.4, 0.6, 2.0)):
                for beta in betas:
                    for qo in (None, 0.0, 400.0):
                        yield (list(ql), beta, list(betas), qo), {}, True


def gen_upstream_speed():
    for n in (1, 2, 3):
        for ql in vecs(Q, n):
            for vl in vecs([0.0, 40.8, 112.2], n):
                yield (list(ql), list(vl)), {}, sum(ql) != 0


def gen_downstream_density():
    for n in (1, 2, 3):
        for r in vecs(RHO, n):
            yield (list(r),), {}, sum(r) != 0


def gen_get_flow():
    for n in (1, 3):
        for r in vecs(RHO, n):
            for v in vecs([0.0, 40.8, 112.2], n):
                for lam in (1, 3):
                    yield (list(r), list(v), lam), {}, True


def gen_step_density():
    for n in (1, 3):
        for r in vecs([0.0, 33.5, 180.0], n):
            for q in vecs(Q, n):
                for qu in vecs([0.0, 3000.0], n):
                    for lam, L in ((1, 0.6), (3, 1.5)):
                        yield (list(r), list(q), list(qu), lam, L, T_), {}, True


def gen_veq():
    for n in (1, 3):
        for r in vecs(RHO, n):
            for vf, rc, a in ((102.0, 33.5, 1.867), (120.0, 28.0, 2.3), (100, 30, 2), (110, 28, 3)):
                yield (list(r), vf, rc, a), {}, True


def gen_controlled_veq():
    for n in (1, 3):
        subsets = [[], [0], [n - 1], list(range(n))]
        subsets = [s for i, s in enumerate(subsets) if s not in subsets[:i]]
        for vsl in subsets:
            for r in vecs([0.0, 33.5, 106.75], n):
                for vc in vecs([20.0, 60.0, 200.0, INF], len(vsl)):
                    for alpha in (0.0, 0.1):
                        yield (list(r), list(vc), list(vsl), alpha, 102.0, 33.5, 1.867), {}, True


def gen_controlled_veq_long():
    """A 7-segment link with EVERY subset of limited segments and pairwise distinct limits (a limit applied to the wrong
    segment changes the result)."""
    n = 7
    rhos = ([10.0, 20.0, 30.0, 40.0, 50.0, 60.0, 70.0], [0.0, 33.5, 106.75, 5.0, 90.0, 33.5, 0.0])
    for mask in range(2 ** n):
        vsl = [i for i in range(n) if mask >> i & 1]
        for r in rhos:
            for alpha in (0.0, 0.1):
                vc = [15.0 + 9.0 * k for k in range(len(vsl))]
                yield (list(r), vc, vsl, alpha, 102.0, 33.5, 1.867), {}, True
                yield (list(r), vc[::-1], vsl, alpha, 120, 28, 2), {}, True


def gen_step_queue():
    for w in (0.0, 2.0, 50.0):
        for d in (0.0, 300.0, 5000.0):
            for q in (0.0, 400.0, 5000.0):
                for T in (T_, 8 / 3600):
                    yield (w, d, q, T), {}, True


def gen_mainstream():
    for d in (0.0, 300.0, 5000.0):
        for w in (0.0, 2.0, 50.0):
            for vc in (0.0, 3.0, 20.0, 60.0, 200.0, INF):
                for vf_ in (0.0, 3.06, 40.8, 81.6, 112.2):
                    for rc, a, vfree, lam in ((33.5, 1.867, 102.0, 2), (28.0, 2.3, 120.0, 3), (30, 2, 100, 2)):
                        yield (d, w, vc, vf_, rc, a, vfree, lam, T_), {}, True


def gen_ramp():
    for typ in ("in", "out"):
        for d in (0.0, 300.0, 5000.0):
            for w in (0.0, 2.0, 50.0):
                for C in (1500.0, 2500.0):
                    for r in (0.0, 0.5, 1.0):
                        for rf in RHO:
                            for T in (T_, 8 / 3600):
                                yield (d, w, C, r, 180.0, rf, 33.5, T, typ), {}, True


def gen_simplified():
    for typ in ("limited", "unlimited"):
        for qd in (0.0, 400.0, 1e6, INF):
            for d in (0.0, 300.0, 5000.0):
                for w in (0.0, 2.0, 50.0):
                    for C in (1500.0, 2500.0):
                        for rf in RHO:
                            yield (qd, d, w, C, 180.0, rf, 33.5, T_, typ), {}, (qd != INF or typ == "limited")


def gen_dest_free():
    for r in RHO + [200.0]:
        for rc in (28.0, 33.5):
            yield (r, rc), {}, True


def gen_dest_cong():
    for r in RHO + [200.0]:
        for dd in (0.0, 20.0, 60.0, 200.0):
            for rc in (28.0, 33.5):
                yield (r, dd, rc), {}, True


SPEED_BASES = [
    dict(v=[93.0, 89.75, 86.5], v_up=[95.0, 93.0, 89.75], rho=[14.0, 16.25, 18.5], rho_down=[16.25, 18.5, 21.0],
         Veq=[99.0, 97.5, 96.0], lanes=2, L=1.0, tau=18 / 3600, eta=60.0, kappa=40.0, T=T_, q_ramp=900.0, delta=0.0122,
         lanes_drop=1, phi=1.8, rho_crit=33.5),
    dict(v=[31.0, 28.25, 25.5], v_up=[36.0, 31.0, 28.25], rho=[82.0, 87.75, 93.5], rho_down=[87.75, 93.5, 120.0],
         Veq=[22.0, 19.0, 16.0], lanes=3, L=0.7, tau=20 / 3600, eta=55.0, kappa=35.0, T=8 / 3600, q_ramp=1500.0, delta=0.02,
         lanes_drop=-1, phi=2.2, rho_crit=30.0),
]
SPEED_ALPHA = dict(v=[0.0, 3.06, 112.2], v_up=[0.0, 112.2], rho=[0.0, 33.5, 180.0], rho_down=[0.0, 180.0], Veq=[0.0, 102.0],
                   lanes=[1, 4], L=[0.6, 1.5], tau=[16 / 3600], eta=[65.0], kappa=[45.0], T=[12 / 3600], q_ramp=[0.0, 4000.0],
                   delta=[0.001], lanes_drop=[2, -2], phi=[1.0], rho_crit=[38.0])
SPEED_ORDER = ["v", "v_up", "rho", "rho_down", "Veq", "lanes", "L", "tau", "eta", "kappa", "T", "q_ramp", "delta", "lanes_drop",
               "phi", "rho_crit"]


def gen_step_speed(dmax, N):
    slots = []
    for name in SPEED_ORDER:
        if name in ("v", "v_up", "rho", "rho_down", "Veq"):
            slots += [(name, j) for j in range(N)]
        else:
            slots.append((name, None))
    for base in SPEED_BASES:
        for pat in itertools.product((0, 1), repeat=2):  # (merging group present, lane-drop group present)
            for k in range(dmax + 1):
                for combo in itertools.combinations(slots, k):
                    for values in itertools.product(*[SPEED_ALPHA[s[0]] for s in combo]):
                        a = {n: (list(v[:N]) if isinstance(v, list) else v) for n, v in base.items()}
                        for (name, j), x in zip(combo, values):
                            if j is None:
                                a[name] = x
                            else:
                                a[name][j] = x
                        if not pat[0]:
                            a["q_ramp"] = None
                            a["delta"] = None
                        if not pat[1]:
                            a["lanes_drop"] = None
                            a["phi"] = None
                            a["rho_crit"] = None
                        yield tuple(a[n] for n in SPEED_ORDER), {}, True


PRIMS = {
    "nodes.get_upstream_flow": gen_upstream_flow,
    "nodes.get_upstream_speed": gen_upstream_speed,
    "nodes.get_downstream_density": gen_downstream_density,
    "links.get_flow": gen_get_flow,
    "links.step_density": gen_step_density,
    "links.Veq": gen_veq,
    "links.controlled_Veq": gen_controlled_veq,
    "links.controlled_Veq#long": gen_controlled_veq_long,
    "origins.step_queue": gen_step_queue,
    "origins.get_mainstream_flow": gen_mainstream,
    "origins.get_ramp_flow": gen_ramp,
    "origins.get_simplifiedramp_flow": gen_simplified,
    "destinations.get_congestion_free_downstream_density": gen_dest_free,
    "destinations.get_congested_downstream_density": gen_dest_cong,
}


# argument kinds: V vector variable, S scalar variable (length-1 or 0-d array), Z scalar obtained by indexing a
# vector (NumPy scalar), P parameter (plain Python number for both engines), B vector of parameters (turn rates,
# concatenated by the element layer with engine.vcat), I index list, X passed through (str / None)
KINDS = {
    "nodes.get_upstream_flow": "VPBS",
    "nodes.get_upstream_speed": "VV",
    "nodes.get_downstream_density": "V",
    "links.get_flow": "VVP",
    "links.step_density": "VVVPPP",
    "links.step_speed": "VVVVVPPPPPPSPPPP",
    "links.Veq": "VPPP",
    "links.controlled_Veq": "VVIPPPP",
    "origins.step_queue": "SSSP",
    "origins.get_mainstream_flow": "SSSZPPPPP",
    "origins.get_ramp_flow": "SSPSPZPPX",
    "origins.get_simplifiedramp_flow": "SSSPPZPPX",
    "destinations.get_congestion_free_downstream_density": "ZP",
    "destinations.get_congested_downstream_density": "ZSP",
}


# primitives whose model parameters the element layer passes through unchanged from the element attributes
ARRAY_PARAM_PRIMS = ("links.Veq", "links.controlled_Veq", "origins.get_mainstream_flow", "origins.get_ramp_flow",
                     "origins.get_simplifiedramp_flow", "destinations.get_congestion_free_downstream_density",
                     "destinations.get_congested_downstream_density", "links.get_flow", "links.step_density")


def conv_np(kind, x, shape):
    if x is None or kind in "PIX":
        return list(x) if kind == "I" else x
    if kind in "VB":
        return np.array(x, dtype=float)
    if kind == "Z":
        return np.array([float(x)])[0]
    return np.array(float(x)) if shape == "0d" else np.array([float(x)])


def conv_dm(kind, x):
    if x is None or kind in "PIX":
        return list(x) if kind == "I" else x
    if kind in "VB":
        return cs.DM(list(x)) if len(x) else cs.DM(0, 1)
    return cs.DM(float(x))


class ArgumentModified(Exception):
    pass


def call_array_params(engine_np, engine_cs, prim, args):
    """The NumPy primitive with every numeric parameter given as a 0-d array (as the element layer holds them when the
    user constructs elements with array parameters): evaluated, then the parameter arrays are CHANGED IN PLACE by the
    caller and the primitive is evaluated again with the same objects; both results against CasADi at the respective
    values.  Returns None or a message."""
    prim = prim.split("#")[0]
    grp, name = prim.split(".")
    kinds = KINDS[prim]
    if "P" not in kinds:
        return None
    f_np = getattr(getattr(engine_np, grp), name)
    f_cs = getattr(getattr(engine_cs, grp), name)
    cargs = [(np.array(float(a)) if (k == "P" and a is not None and not isinstance(a, str)) else conv_np(k, a, "1d"))
             for k, a in zip(kinds, args)]
    factors = {}
    for rnd in (0, 1):
        if rnd == 1:
            for i, (k, c) in enumerate(zip(kinds, cargs)):
                if k == "P" and isinstance(c, np.ndarray):
                    c[...] = c * (1.0 + 0.03 * (i + 1))
        cur = [float(c) if (k == "P" and isinstance(c, np.ndarray)) else a for k, c, a in zip(kinds, cargs, args)]
        try:
            rn = flat(f_np(*cargs))
        except Exception as e:  # noqa: BLE001
            return f"numpy with 0-d array parameters (round {rnd}): {exc_text(e)}"
        rc = flat(f_cs(*[conv_dm(k, a) for k, a in zip(kinds, cur)]))
        if len(rn) != len(rc):
            return f"round {rnd}: numpy returns {len(rn)} values, casadi {len(rc)}"
        for x, y in zip(rn, rc):
            if not (close(x, y) or x == y or (x != x and y != y) or abs(x) == INF or abs(y) == INF):
                return (f"numpy with 0-d array parameters {'after the caller changed them in place' if rnd else ''} = {x!r}, "
                        f"casadi at the same values = {y!r}")
    return None


def call(engine, prim, args, which, shape=None):
    prim = prim.split("#")[0]
    grp, name = prim.split(".")
    f = getattr(getattr(engine, grp), name)
    kinds = KINDS[prim]
    if which == "np":
        cargs = [conv_np(k, a, shape) for k, a in zip(kinds, args)]
        snap = [c.copy() if isinstance(c, np.ndarray) else c for c in cargs]
        r1 = np.array(f(*cargs), dtype=float, copy=True)
        # same value twice from the same argument objects, and the arguments are left untouched
        r2 = np.asarray(f(*cargs), dtype=float)
        for c, s0 in zip(cargs, snap):
            if isinstance(c, np.ndarray) and not np.array_equal(c, s0, equal_nan=True):
                raise ArgumentModified(f"argument changed from {s0.tolist()} to {c.tolist()}")
        if r1.shape != r2.shape or not np.array_equal(r1, r2, equal_nan=True):
            raise ArgumentModified(f"second evaluation from the same argument objects gives {r2.tolist()}, the first gave {r1.tolist()}")
        return r1
    cargs = [conv_dm(k, a) for k, a in zip(kinds, args)]
    return f(*cargs)


def compare_case(prim, args, defined, st, problems, shapes=("1d", "0d")):
    ce = CE()
    if defined and prim.split("#")[0] in ARRAY_PARAM_PRIMS:
        st.inc("executions", 4)
        msg = call_array_params(NE(), ce, prim, args)
        if msg:
            problems.append((f"C15/{prim.split('#')[0]}/array-parameters", f"{prim}{args}: {msg}", args))
    try:
        rc = flat(call(ce, prim, args, "dm"))
    except Exception as e:  # noqa: BLE001
        problems.append((f"C15/{prim}/casadi-exception/{type(e).__name__}", f"casadi {prim}{args}: {exc_text(e)}", args))
        return
    for shape in shapes:
        st.inc("executions")
        try:
            rn = flat(call(NE(), prim, args, "np", shape))
        except Exception as e:  # noqa: BLE001
            problems.append((f"C15/{prim}/numpy-exception/{type(e).__name__}", f"numpy({shape}) {prim}{args}: {exc_text(e)}", args))
            continue
        if len(rn) != len(rc):
            problems.append((f"C15/{prim}/shape", f"{prim}{args}: numpy({shape}) returns {len(rn)} values, casadi {len(rc)}", args))
            continue
        for a, b in zip(rn, rc):
            st.inc("components_compared")
            if defined:
                if not close(a, b):
                    if a == b:  # equal infinities are fine for infinite arguments
                        continue
                    kind = "nonfinite" if (a != a or b != b or abs(a) == INF or abs(b) == INF) else "mismatch"
                    problems.append((f"C15/{prim}/{kind}", f"{prim}{args}: numpy({shape}) = {a!r}, casadi = {b!r}", args))
                    break
            elif not (close(a, b) or (a != a and b != b) or (a != a) != (b != b)):
                problems.append((f"C15/{prim}/mismatch", f"{prim}{args}: numpy({shape}) = {a!r}, casadi = {b!r}", args))
                break


# ---------------------------------------------------------------------------------------
# harvested arguments: the argument tuples the real element layer hands to the primitives while it steps real
# networks on the NumPy engine (recorded by an engine proxy), replayed on the CasADi primitives
# ---------------------------------------------------------------------------------------
def dm_of(x):
    if isinstance(x, np.ndarray):
        return cs.DM(np.asarray(x, dtype=float).reshape(-1).tolist()) if x.size else cs.DM(0, 1)
    if isinstance(x, np.generic):
        return float(x)
    return x


def show(x):
    if isinstance(x, np.ndarray):
        return f"array({x.tolist()}, {x.dtype})"
    return repr(x)


def harvest_spec(spec, label, st, problems, seen):
    from ..harness import np_step
    from ..netgen import MODEL_PARAMS
    from ..spec import build
    from ..spy import SpyEngine
    from .. import valgen
    runs = []
    for pi in (0, 1):
        P = MODEL_PARAMS[pi]
        for vlabel, val in list(valgen.vectors(spec, 0)) + (list(valgen.extreme_vectors(spec)) if pi == 0 else []):
            runs.append((f"conditions {vlabel}", P, val, None))
        # variables created by the NumPy engine itself: float fill, INTEGER fill (np.full((n,), 60) is int64), 0-d fill
        runs.append(("engine-created variables, var_type=30.0", P, None, np.float64(30.0)))
        runs.append(("engine-created variables, var_type=60 (int)", P, None, 60))
    # ... and every whole-number parameter (link, ramp and model parameters) given as a Python int
    from ..spec import integer_typed
    sp_i, ov_i, P_i = integer_typed(spec, MODEL_PARAMS[0])
    for vlabel, val in valgen.vectors(sp_i, 0):
        runs.append((f"integer-typed parameters, conditions {vlabel}", P_i, val, "int-params"))
    for rlabel, P, val, fill in runs:
        intp = isinstance(fill, str)
        spy = SpyEngine(env.numpy_engine() if (fill is None or intp) else env.numpy_engine(fill), "np", record=True)
        try:
            if intp:
                np_step(sp_i, val, P, engine=spy, built=build(sp_i, override=ov_i))
            elif val is not None:
                np_step(spec, val, P, engine=spy)
            else:
                build(spec).net.step(engine=spy, **P)
        except Exception as e:  # noqa: BLE001
            problems.append((f"C15/harvest/numpy-exception/{exc_site(e)}/{type(e).__name__}",
                             f"{spec.short()} ({rlabel}): {exc_text(e)}", {"spec": spec.describe(), "run": rlabel}))
            continue
        st.inc("executions")
        ce = CE()
        for prim, a, k, r in spy.log:
            key = (prim, repr([show(x) for x in a]), repr(sorted((kk, show(v)) for kk, v in k.items())))
            st.inc("harvested_calls")
            if key in seen:
                continue
            seen.add(key)
            st.inc("states")
            st.inc("transitions")
            st.add_to("harvested_primitives", prim)
            grp, name = prim.split(".")
            desc = f"{prim}({', '.join(show(x) for x in a)}{''.join(f', {kk}={show(v)}' for kk, v in k.items())})"
            case = {"spec": spec.describe(), "run": rlabel, "call": desc}
            try:
                rc = flat(getattr(getattr(ce, grp), name)(*[dm_of(x) for x in a], **{kk: dm_of(v) for kk, v in k.items()}))
            except Exception as e:  # noqa: BLE001
                problems.append((f"C15/{prim}/harvested/casadi-exception/{type(e).__name__}",
                                 f"{spec.short()} ({rlabel}): casadi {desc}: {exc_text(e)}", case))
                continue
            rn = flat(r)
            st.inc("executions")
            if len(rn) != len(rc):
                problems.append((f"C15/{prim}/harvested/shape", f"{spec.short()} ({rlabel}): {desc}: numpy returns {len(rn)} values, "
                                 f"casadi {len(rc)}", case))
                continue
            for x, y in zip(rn, rc):
                st.inc("components_compared")
                if close(x, y) or x == y:
                    continue
                if x != x or y != y or abs(x) == INF or abs(y) == INF:
                    # the model's own 0/0 or inf-inf at extreme vectors: only agreement where both are finite is required
                    st.inc("harvested_nonfinite_skipped")
                    continue
                problems.append((f"C15/{prim}/harvested/mismatch", f"{spec.short()} ({rlabel}): {desc}: numpy = {x!r}, casadi = {y!r}",
                                 case))
                break


def worker(item):
    prim, chunk_i, chunks, extra = item
    st = Stats()
    problems = []
    if prim == "harvest":
        seen = set()
        for label, spec in extra:
            harvest_spec(spec, label, st, problems, seen)
        for sig, msg, case in problems:
            st.violation(sig, msg, dict(case, primitive="harvest"))
        st.outcome(("harvest", len(problems) == 0))
        return st
    if prim == "links.step_speed":
        dmax, N = extra
        gen = gen_step_speed(dmax, N)
    elif prim == "engine.max/vcat":
        gen = None
    else:
        gen = PRIMS[prim]()
    if gen is not None:
        for idx, (args, kw, defined) in enumerate(gen):
            if idx % chunks != chunk_i:
                continue
            st.inc("states")
            st.inc("transitions")
            compare_case(prim, args, defined, st, problems)
            if len(st.samples) < 1 and idx > 10:
                st.sample({"primitive": prim, "args": [a if not isinstance(a, float) or abs(a) != INF else "inf" for a in args]})
    else:
        # max and vcat on all shape pairs the element layer produces
        ne, ce = NE(), CE()
        shapes = [[5.0], [-3.0], [0.0], [1.0, -2.0, 3.0], [0.0, 0.0, -1e-9]]
        for s in shapes:
            st.inc("states")
            st.inc("transitions", 2)
            a = flat(ne.max(0, np.array(s)))
            b = flat(ce.max(0, cs.DM(s)))
            st.inc("executions", 2)
            if a != b:
                problems.append(("C15/engine.max/mismatch", f"max(0, {s}): numpy {a}, casadi {b}", (s,)))
        for parts in itertools.product(shapes, repeat=2):
            for extra_part in (None, [7.0]):
                ps = list(parts) + ([extra_part] if extra_part else [])
                st.inc("states")
                a = flat(ne.vcat(*[np.array(p) for p in ps]))
                b = flat(ce.vcat(*[cs.DM(p) for p in ps]))
                a0 = flat(ne.vcat(*[np.array(p[0]) if len(p) == 1 else np.array(p) for p in ps]))
                st.inc("executions", 3)
                if a != b or a0 != b:
                    problems.append(("C15/engine.vcat/mismatch", f"vcat{ps}: numpy {a} / {a0}, casadi {b}", (ps,)))
    for sig, msg, args in problems:
        st.violation(sig, msg, {"primitive": prim, "args": list(args)})
    st.outcome((prim, len(problems) == 0))
    return st


def explore(tier, seed, nproc):
    items = []
    for prim in PRIMS:
        items += [(prim, i, 4, None) for i in range(4)]
    dmax = 2 if tier == "quick" else 3
    for N in (1, 3):
        items += [("links.step_speed", i, 32, (dmax if (N == 3 or tier != "quick") else 1, N)) for i in range(32)]
    items.append(("engine.max/vcat", 0, 1, None))
    from ..netgen import all_specs, harness_specs
    pal = seed % 3
    hs = ([(lab, sp) for _, lab, sp in (all_specs(3, 3, 0, pal) if tier == "quick" else all_specs(3, 4, 1, pal))]
          + [(f"harness:{k}", sp) for k, sp in harness_specs(pal).items()])
    items += [("harvest", 0, 1, sh) for sh in shards_of(hs, nproc * 4)]
    rot = seed % len(items)
    items = items[rot:] + items[:rot]
    st = run_shards(worker, items, nproc)
    cov = {"primitives": list(PRIMS) + ["links.step_speed", "engine.max", "engine.vcat"], "step_speed_deviation_bound": dmax,
           "harvested": {"networks": len(hs), "bounds": ("(n,m)<=(3,3) base+uniform" if tier == "quick" else "(n,m)<=(3,4), c<=1")
                         + " + harness list; 2 parameter sets; base and extreme vectors; engine-created float and integer variables",
                         "primitives_reached": sorted(st.sets.get("harvested_primitives", set()))},
           "rule": "a state is one argument tuple of one primitive; full Cartesian products of the alphabets (step_speed: "
                   "deviation-bounded, 4 None patterns, 2 base tuples); NumPy (length-1 and 0-d scalars) vs casadi.DM"}
    assumptions = ["alphabets contain every branch boundary of every min/max/if of the primitives and zero/inf extremes",
                   "where the primitive itself divides 0 by 0 only agreement of NaN-ness is required",
                   "tolerance 1e-9",
                   "harvested family: the argument tuples are those the element layer passes while stepping the listed networks "
                   "on the NumPy engine; non-finite results (the model's own 0/0 at extreme vectors) are not compared"]
    return st, cov, assumptions


def replay(case):
    st = Stats()
    problems = []
    if case.get("primitive") == "harvest":
        from ..spec import NetSpec
        spec = NetSpec.from_json(case["spec"])
        harvest_spec(spec, "?", st, problems, set())
        lines = [f"harvested calls of {spec.short()}"] + [f"  {s}: {m}" for s, m, a in problems[:10]]
        return lines, bool(problems)
    args = tuple(float("inf") if a == "inf" else a for a in case["args"])
    compare_case(case["primitive"], args, True, st, problems)
    lines = [f"{case['primitive']}{args}"] + [f"  {s}: {m}" for s, m, a in problems]
    return lines, bool(problems)
