"""C10 — each next state depends only on its own segment and its model neighbours.

Space N: every valid shape within (n, m) x configurations (N in 1..3 so first/last/only
segments differ).  Per network
 (a) the compiled function (compact 0, SX and MX): for every (output scalar, input scalar)
     the structural dependency bit that CasADi propagates through the actual expression
     graph (Function.jac_sparsity) - a statement about all numeric inputs at once;
 (b) the NumPy engine: for every input scalar and every alternative alphabet value (d = 1,
     two base vectors) the set of output scalars whose value changes.
Oracle: observed dependencies are a subset of the allowed-neighbour relation derived from
the spec alone by mc/refmodel.allowed_dependencies.
"""
from __future__ import annotations

import numpy as np

from .. import env
from ..core import Stats, exc_site, exc_text
from ..harness import Compiled, cs_compile, np_step
from ..netgen import MODEL_PARAMS, all_specs, harness_specs
from ..parallel import run_shards, shards_of
from ..spec import NetSpec, build_edited
from .. import refmodel, valgen


def relation(spec: NetSpec, outc, inc):
    ok, ovar, oj = outc
    ik, ivar, ij = inc
    if ok.startswith("O"):
        o = spec.origin_at(int(ok[1:]))
        li = spec.out_links(o.node)[0]
        if ik == ok:
            return f"own.{ivar}"
        if ik == f"L{li}":
            return f"own-link.{ivar}[{ij}]"
        return f"foreign-{ik[0]}.{ivar}"
    l = spec.links[int(ok[1:])]
    if ik == ok:
        return f"own-link.{ivar}[{ij - oj:+d}]"
    if ik.startswith("L"):
        m = int(ik[1:])
        lm = spec.links[m]
        rel = []
        if lm.v == l.u:
            rel.append(f"entering-up.{ivar}[last{ij - (lm.N - 1):+d}]")
        if lm.u == l.v:
            rel.append(f"leaving-dn.{ivar}[{ij}]")
        if lm.u == l.u:
            rel.append(f"sibling-up.{ivar}")
        if lm.v == l.v:
            rel.append(f"sibling-dn.{ivar}")
        return "|".join(rel) if rel else f"unrelated-link.{ivar}"
    node = int(ik[1:])
    if ik.startswith("O"):
        where = "up" if node == l.u else ("dn" if node == l.v else "elsewhere")
        return f"origin-{where}.{ivar}"
    where = "dn" if node == l.v else "elsewhere"
    return f"dest-{where}.{ivar}"


def sig_for(spec, engine, outc, inc):
    ok, ovar, oj = outc
    if ok.startswith("L"):
        N = spec.links[int(ok[1:])].N
        pos = "only" if N == 1 else ("first" if oj == 0 else ("last" if oj == N - 1 else "mid"))
    else:
        pos = spec.origin_at(int(ok[1:])).kind
    return f"C10/{ovar}/{pos}/depends-on/{relation(spec, outc, inc)}"


def check_spec(spec: NetSpec, label, st: Stats, plan):
    problems = []
    scal = valgen.scalars(spec)
    for pi in plan["psets"]:
        P = MODEL_PARAMS[pi]
        A = refmodel.allowed_dependencies(spec, "delta" in P, "phi" in P)
        st.inc("allowed_bits", sum(len(v) for v in A.values()))
        # (a) structural, on the compiled function ------------------------------------
        for sym in plan["cs_sym"]:
            st.inc("transitions", 2)
            st.inc("executions")
            case = {"spec": spec.describe(), "config": label, "P": P, "engine": sym}
            variants = [("fresh", None)] + ([("edited-links", "links"), ("edited-attachments", "attachments"), ("edited-replace", "replace")] if plan.get("edited") else [])
            if plan.get("supply"):
                from ..harness import supply_modes
                variants = [(f"initial conditions {ml}", sup) for ml, sup in supply_modes(spec)]
            for vname, emode in variants:
              try:
                if emode is None:
                    F, built, eng = cs_compile(spec, sym, P, compact=0)
                elif isinstance(emode, frozenset):
                    # the caller gives its own symbols for part of the variables only
                    F, built, eng = cs_compile(spec, sym, P, compact=0, supply=emode)
                    st.inc("executions")
                    st.inc("partial_condition_compilations")
                else:
                    eng0 = env.casadi_engine(sym)
                    F, built, eng = cs_compile(spec, sym, P, compact=0, built=build_edited(spec, P, emode, engine=eng0))
                    st.inc("executions")
                comp = Compiled(F, built)
                for oi, oslot in enumerate(comp.out_slots):
                    for ii, islot in enumerate(comp.in_slots):
                        sp = F.jac_sparsity(oi, ii)
                        rows, cols = sp.get_triplet()
                        st.inc("pairs_examined", F.size1_out(oi) * F.size1_in(ii))
                        for r, c in zip(rows, cols):
                            outc = (oslot[0], oslot[1], r)
                            inc = (islot[0], islot[1], c)
                            st.inc("observed_bits")
                            if inc not in A[outc]:
                                problems.append((sig_for(spec, sym, outc, inc),
                                                 f"{sym} ({vname} network): next {outc[1]}[{outc[2]}] of {outc[0]} depends structurally on "
                                                 f"{inc[1]}[{inc[2]}] of {inc[0]}", dict(case, out=outc, inp=inc, variant=vname)))
              except Exception as e:  # noqa: BLE001
                problems.append((f"C10/exception/{exc_site(e)}/{type(e).__name__}", f"{sym} ({vname} network): {exc_text(e)}", case))
        # (b) numeric perturbation, NumPy engine -------------------------------------------
        if plan["np"]:
            for b in (0, 1):
                base = valgen.base_vector(spec, b)
                case0 = {"spec": spec.describe(), "config": label, "P": P, "engine": "numpy", "base": b}
                try:
                    ref_out, _, _ = np_step(spec, base, P)
                except Exception as e:  # noqa: BLE001
                    problems.append((f"C10/exception/{exc_site(e)}/{type(e).__name__}", f"numpy: {exc_text(e)}", case0))
                    break
                st.inc("executions")
                for c in scal:
                    for x in valgen.alphabet(spec, c[0], c[1]):
                        if x == base[(c[0], c[1])][c[2]]:
                            continue
                        st.inc("executions")
                        st.inc("transitions")
                        out, _, _ = np_step(spec, valgen.with_value(base, c, x), P)
                        for (key, var), lst in out.items():
                            for j, (a, b0) in enumerate(zip(lst, ref_out[(key, var)])):
                                same = (a == b0) or (a != a and b0 != b0)
                                if not same:
                                    st.inc("observed_changes")
                                    if c not in A[(key, var, j)]:
                                        problems.append((sig_for(spec, "numpy", (key, var, j), c),
                                                         f"numpy: next {var}[{j}] of {key} changes ({b0!r} -> {a!r}) when "
                                                         f"{c[1]}[{c[2]}] of {c[0]} is set to {x}",
                                                         dict(case0, out=(key, var, j), inp=c, value=x)))
    return problems


def worker(item):
    plan, specs = item
    st = Stats()
    for label, spec in specs:
        st.inc("states")
        st.add_to("shapes", (spec.n, tuple((l.u, l.v) for l in spec.links)))
        problems = check_spec(spec, label, st, plan)
        st.outcome((spec.n, len(spec.links), len(problems) == 0))
        if len(st.samples) < 1 and len(spec.links) >= 3:
            A = refmodel.allowed_dependencies(spec)
            k = sorted(A)[len(A) // 2]
            st.sample({"config": label, "spec": spec.describe(), "example_output": k,
                       "allowed_inputs": sorted(A[k])})
        for sig, msg, case in problems:
            st.violation(sig, f"{spec.short()}: {msg}", case)
    return st


def plans(tier, seed):
    pal = (seed + 2) % 3
    if tier == "quick":
        jobs = [({"psets": [0, 1], "cs_sym": ["SX", "MX"], "np": False}, [(lab, s) for _, lab, s in all_specs(3, 4, 1, pal)]
                 + [(f"harness:{k}", s) for k, s in harness_specs(pal).items()]),
                ({"psets": [0], "cs_sym": ["SX"], "np": False, "edited": True}, [(lab, s) for _, lab, s in all_specs(3, 3, 1, pal)]),
                ({"psets": [0], "cs_sym": ["SX"], "np": False, "supply": True}, [(lab, s) for _, lab, s in all_specs(3, 3, 0, pal)]
                 + [(f"harness:{k}", s) for k, s in harness_specs(pal).items()]),
                ({"psets": [0], "cs_sym": [], "np": True}, [(lab, s) for _, lab, s in all_specs(3, 3, 0, pal)])]
        bounds = {"structural": "(n,m)<=(3,4), c<=1, SX and MX, with and without delta/phi",
                  "partial_conditions": "(n,m)<=(3,3) base+uniform configurations and the harness list on SX: nothing supplied, every "
                                        "single element omitted / alone, every single variable omitted",
                  "numeric_numpy": "(n,m)<=(3,3), base+uniform configurations, d=1 over the alphabets, 2 base vectors",
                  "palette": pal}
    else:
        a = [(lab, s) for _, lab, s in all_specs(3, 4, 1, pal)] + [(lab, s) for _, lab, s in all_specs(3, 3, 2, pal)
                                                                  if lab.startswith("dev:") and "+" in lab]
        b = [(lab, s) for _, lab, s in all_specs(4, 4, 1, pal) if s.n == 4]
        c = [(lab, s) for _, lab, s in all_specs(3, 4, 1, pal)]
        jobs = [({"psets": [0, 1], "cs_sym": ["SX", "MX"], "np": False}, a),
                ({"psets": [0], "cs_sym": ["SX"], "np": False}, b),
                ({"psets": [0, 1], "cs_sym": ["SX", "MX"], "np": False, "edited": True}, [x for x in c if not x[0].startswith("dev:")]),
                ({"psets": [0], "cs_sym": ["SX"], "np": False, "edited": True}, [x for x in c if x[0].startswith("dev:")]),
                ({"psets": [0], "cs_sym": ["SX", "MX"], "np": False, "supply": True}, [x for x in c if not x[0].startswith("dev:")]
                 + [(f"harness:{k}", s) for k, s in harness_specs(pal).items()]),
                ({"psets": [0, 1], "cs_sym": [], "np": True}, c)]
        bounds = {"structural": "(3,4) c<=1 and (3,3) c=2 on SX and MX with and without delta/phi; 4-node shapes (4,4) c<=1 on SX; "
                                "edited-network variants on (3,4) c<=1",
                  "numeric_numpy": "(n,m)<=(3,4), c<=1, d=1, 2 base vectors", "palette": pal}
    return jobs, bounds


def explore(tier, seed, nproc):
    jobs, bounds = plans(tier, seed)
    st = Stats()
    nets = 0
    for plan, specs in jobs:
        nets += len(specs)
        st.merge(run_shards(worker, [(plan, sh) for sh in shards_of(specs, nproc * 8)], nproc))
    cov = {"bounds": bounds, "networks": nets,
           "rule": "a state is one network program; for each, every (output scalar, input scalar) pair of the compiled "
                   "function is examined structurally, and every single-scalar perturbation is executed on NumPy"}
    assumptions = [
        "structural independence (CasADi sparsity propagation over the real expression graph) implies functional "
        "independence; the converse is not needed because only observed <= allowed is checked",
        "the allowed relation is derived from the spec by mc/refmodel.allowed_dependencies",
        "NumPy path: perturbations are single excursions from two base vectors",
    ]
    return st, cov, assumptions


def replay(case):
    spec = NetSpec.from_json(case["spec"])
    st = Stats()
    P = case["P"]
    pi = MODEL_PARAMS.index(P) if P in MODEL_PARAMS else 0
    eng = case.get("engine", "SX")
    plan = {"psets": [pi], "cs_sym": [eng] if eng in ("SX", "MX") else [], "np": eng == "numpy"}
    problems = check_spec(spec, case.get("config", "?"), st, plan)
    lines = [f"network {spec.short()} engine={eng}"]
    lines += [f"  {sig}: {msg}" for sig, msg, c in problems[:20]]
    return lines, bool(problems)
