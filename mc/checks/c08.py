"""C08 — name and membership lookups always reflect the current network.

Two explorers over API histories on real `Network` objects (fresh objects per execution):

 (A) black-box, stateless: every history  m1 R1 m2 R2 ... mk  (+ a final read of every
     lookup), m_i from the mutation alphabet, R_i in {no read, one lookup, all lookups};
     every value read is compared, at the moment it is read, with the recomputation from
     `net.graph`.  Nothing inside the object is inspected.
 (B) state-matching breadth-first search: transitions are single mutations and single
     reads; a state is (graph in labels, set of memoised entries found in the instance
     `__dict__`).  Merging is sound because the future of a network whose memoised values
     are all correct (checked in every state before it is merged) depends only on the
     graph and on *which* entries are memoised.  (A) guards (B) against a change of the
     memoisation mechanism.
"""
from __future__ import annotations

import itertools

from .. import env
from ..core import Stats, exc_site, exc_text
from ..graphmodel import (LOOKUPS, STD_UNIVERSE, Universe, apply_real, check_lookup, observe, snapshot)
from ..parallel import run_shards, shards_of

import sym_metanet as M

MUTATIONS = [
    ("add_node", "a"),
    ("add_node", "c"),
    ("add_nodes", ("a", "b")),
    ("add_link", "a", "L1", "b"),
    ("add_link", "a", "L2", "b"),
    ("add_link", "b", "L2", "c"),
    ("add_link", "a", "L1", "a"),
    ("add_link", "c", "L1", "b"),
    ("add_links", (("a", "L1", "b"), ("b", "L2", "c"))),
    ("add_origin", "O1", "a"),
    ("add_origin", "O2", "a"),
    ("add_origin", "O1", "c"),
    ("add_destination", "D1", "b"),
    ("add_destination", "D2", "b"),
    ("add_destination", "D1", "c"),
    ("add_path", ("a", "L1", "b"), None, None),
    ("add_path", ("a", "L1", "b", "L2", "c"), "O1", "D1"),
    ("add_path", ("c", "L2", "a"), "O2", "D2"),
    ("add_path", ("a", "L1"), None, None),
    ("add_path", ("a", "L1", "L2"), "O2", None),
    ("add_links", (("c", "L2", "a"), ("a", "L1", "b")), "gen"),
    ("add_nodes", ("b", "c"), "gen"),
    # a bulk call with four entries (the two link objects of the universe each sit on two edges afterwards)
    ("add_links", (("a", "L1", "b"), ("b", "L2", "c"), ("c", "L1", "a"), ("a", "L2", "a"))),
    # keyword forms of the calls
    ("add_link_kw", "b", "L1", "c"),
    ("add_origin_kw", "O2", "b"),
    ("add_destination_kw", "D2", "c"),
    ("add_path_kw", ("b", "L1", "a"), "O1", "D2"),
]
CORE_MUTATIONS = MUTATIONS[:21]  # used in the later positions of the longest histories (the first position is always full)
READS = list(LOOKUPS)
NONE, ALL = "-", "*"


def opname(op):
    return op[0]


def do_reads(net, U, which, st, problems, hist, last_mut):
    names = READS if which == ALL else ([] if which == NONE else [which])
    if not names:
        return
    snap = snapshot(net, U)
    for name in names:
        st.inc("transitions")
        try:
            got = observe(net, U, name)
        except Exception as e:  # noqa: BLE001
            problems.append((f"C08/read-exception/{name}/{exc_site(e)}", f"reading {name} raised {exc_text(e)}"))
            continue
        msg = check_lookup(name, got, snap)
        if msg is not None:
            problems.append((f"C08/stale/{name}/after/{last_mut}", msg))


class UserNetwork(M.Network):
    """A trivial user-defined subclass of Network (the memoised lookups are inherited)."""


NETWORK_CLASS = [M.Network]


def run_history(hist, st: Stats):
    """hist: list of ('m', op) / ('r', which); 'm2' / 'r2' address a SECOND network that is made of the same
    element objects (one universe).  Returns problems [(sig, msg)]."""
    U = Universe(STD_UNIVERSE)
    net = NETWORK_CLASS[0](name="net")
    net2 = None
    problems = []
    last_mut = "init"
    for kind, x in hist:
        if kind == "m":
            st.inc("transitions")
            apply_real(net, x, U)  # exceptions of malformed paths are C09's business
            last_mut = opname(x)
        elif kind == "r":
            do_reads(net, U, x, st, problems, hist, last_mut)
        else:
            if net2 is None:
                net2 = M.Network(name="net2")
            if kind == "m2":
                st.inc("transitions")
                apply_real(net2, x, U)
                last_mut = "other-network/" + opname(x)
            else:
                p2 = []
                do_reads(net2, U, x, st, p2, hist, last_mut)
                problems += [(sig.replace("C08/", "C08/second-network/", 1), "second network: " + msg) for sig, msg in p2]
    return problems, net, U


def worker_a_subclass(item):
    """Explorer A on a user-defined subclass of Network."""
    NETWORK_CLASS[0] = UserNetwork
    try:
        st = worker_a(item)
    finally:
        NETWORK_CLASS[0] = M.Network
    for sig in list(st.violations):
        st.violations["C08/network-subclass/" + sig[4:]] = st.violations.pop(sig)
    for sig in list(st.sig_counts):
        st.sig_counts["C08/network-subclass/" + sig[4:]] = st.sig_counts.pop(sig)
    return st


def worker_c(item):
    """Two networks over ONE universe of element objects (nodes, links, origins and destinations are plain objects and
    may be used in several networks): k mutations on the first, all lookups read, k on the second, all lookups of both
    read; plus the interleaved histories first / second / first with all lookups of both read after every call."""
    firsts, k = item
    st = Stats()
    for m1 in firsts:
        if k == "interleaved":
            hs = [[("m", m1), ("r", ALL), ("m2", m2), ("r2", ALL), ("r", ALL), ("m", m3), ("r", ALL), ("r2", ALL)]
                  for m2 in CORE_MUTATIONS for m3 in CORE_MUTATIONS]
        else:
            hs = []
            for ms in itertools.product(CORE_MUTATIONS if k > 1 else MUTATIONS, repeat=2 * k - 1):
                a, b = (m1,) + ms[:k - 1], ms[k - 1:]
                hs.append([("m", m) for m in a] + [("r", ALL)] + [("m2", m) for m in b] + [("r2", ALL), ("r", ALL)])
        for hist in hs:
            st.inc("states")
            st.inc("executions")
            st.inc("two_network_histories")
            problems, net, U = run_history(hist, st)
            st.outcome(snapshot(net, U).key())
            for sig, msg in problems:
                st.violation(sig, msg, {"explorer": "C", "history": hist})
    return st


def worker_a(item):
    """item: (list of first mutations, k, read menu for intermediate positions)"""
    firsts, k, menus = item
    st = Stats()
    for m1 in firsts:
        rest_m = [MUTATIONS if k <= 2 else CORE_MUTATIONS] * (k - 1)
        for ms in itertools.product(*rest_m):
            muts = (m1,) + ms
            for rs in itertools.product(*menus[: k - 1]):
                hist = []
                for i, m in enumerate(muts):
                    hist.append(("m", m))
                    hist.append(("r", rs[i] if i < k - 1 else ALL))
                st.inc("states")
                st.inc("executions")
                problems, net, U = run_history(hist, st)
                st.outcome(snapshot(net, U).key())
                if len(st.samples) < 1 and k >= 2 and rs and rs[0] not in (NONE, ALL):
                    st.sample({"explorer": "A", "history": hist})
                for sig, msg in problems:
                    st.violation(sig, msg, {"explorer": "A", "history": hist})
    return st


# ---------------------------------------------------------------------------------------
# explorer B
# ---------------------------------------------------------------------------------------
def cached_names(net):
    return frozenset(k for k in net.__dict__ if k != "_graph")


def state_key(net, U):
    return (snapshot(net, U).key(), cached_names(net))


B_TRANS = [("m", m) for m in MUTATIONS] + [("r", r) for r in READS]


def _safe_worker_b(item):
    try:
        return worker_b(item)
    except Exception as e:  # noqa: BLE001
        from ..parallel import crash_stats
        return crash_stats(worker_b, e), []


def worker_b(item):
    """item: list of histories (frontier states).  Returns successors and stats."""
    st = Stats()
    succ = []
    for hist in item:
        for t in B_TRANS:
            h2 = hist + [t]
            st.inc("executions")
            problems, net, U = run_history(h2, st)
            # invariant on the state reached: every memoised value equals the recomputation
            snap = snapshot(net, U)
            for name in cached_names(net):
                if name in LOOKUPS and not (t[0] == "r" and t[1] == name):
                    try:
                        msg = check_lookup(name, observe(net, U, name), snap)
                    except Exception as e:  # noqa: BLE001
                        msg = f"reading memoised {name} raised {exc_text(e)}"
                    if msg is not None:
                        last = [x for k, x in h2 if k == "m"]
                        problems.append((f"C08/stale/{name}/after/{opname(last[-1]) if last else 'init'}", msg))
            if problems:
                for sig, msg in problems:
                    st.violation(sig, msg, {"explorer": "B", "history": h2})
                continue  # do not expand states that already violate
            succ.append((state_key(net, U), h2))
    return st, succ


class _Wrap:
    """lets run_shards carry (Stats, successors)"""


def explore_b(depth, nproc, st_total: Stats):
    from ..parallel import run_shards as _rs  # noqa: F401
    import multiprocessing as mp

    U = Universe(STD_UNIVERSE)
    net0 = M.Network(name="net")
    seen = {state_key(net0, U)}
    frontier = [[]]
    levels = []
    ctx = mp.get_context("fork")
    completed = 0
    with ctx.Pool(nproc) as pool:
        for d in range(1, depth + 1):
            if not frontier:
                break
            shards = shards_of(frontier, nproc * 4)
            results = pool.map(_safe_worker_b, shards, chunksize=1)
            nxt = []
            for st, succ in results:
                st_total.merge(st)
                for key, h in succ:
                    st_total.inc("transitions_b")
                    if key not in seen:
                        seen.add(key)
                        nxt.append(h)
            levels.append(len(nxt))
            frontier = nxt
            completed = d
    return len(seen), levels, completed


def explore(tier, seed, nproc):
    st = Stats()
    full = [NONE, ALL] + READS
    coarse = [NONE, ALL]
    if tier == "quick":
        plans = [(1, []), (2, [full]), (3, [full, coarse])]
        depth_b = 5
    else:
        plans = [(1, []), (2, [full]), (3, [full, full]), (4, [coarse, [NONE] + READS[1:2] + READS[4:5] + READS[7:8] + READS[10:11], coarse])]
        depth_b = 7
    # the seed rotates the mutation alphabet (order of exploration only; the space is the same)
    rot = seed % len(MUTATIONS)
    firsts = MUTATIONS[rot:] + MUTATIONS[:rot]
    a_hist = {}
    for k, menus in plans:
        items = [([m], k, menus) for m in firsts]
        r = run_shards(worker_a, items, nproc)
        a_hist[k] = r.c.get("states", 0)
        st.merge(r)
    sub = run_shards(worker_a_subclass, [([m], 2, [full]) for m in firsts], nproc)
    a_hist["2 (on a user subclass of Network)"] = sub.c.get("states", 0)
    st.merge(sub)
    c_hist = {}
    for k in ((1, 2, "interleaved") if tier == "quick" else (1, 2, "interleaved")):
        r = run_shards(worker_c, [([m], k) for m in firsts], nproc)
        c_hist[str(k)] = r.c.get("states", 0)
        st.merge(r)
    n_states_b, levels, completed = explore_b(depth_b, nproc, st)
    st.inc("states", n_states_b)
    cov = {
        "explorer_A": {"history_length_completed": max(k for k, _ in plans), "histories_per_length": a_hist,
                       "mutation_alphabet": len(MUTATIONS), "read_alphabet": len(READS) + 2},
        "explorer_C_two_networks": {"histories": c_hist, "rule": "k mutations on a first network, all lookups read, k mutations on a "
                                    "second network made of the same element objects, all lookups of both read (k = 1, 2); "
                                    "and first/second/first with all lookups of both read after every call"},
        "explorer_B": {"depth_completed": completed, "distinct_states": n_states_b, "new_states_per_level": levels,
                       "transitions_per_state": len(B_TRANS)},
        "rule": "A: every history m1 R1 .. mk over the alphabets (final read of all lookups); "
                "B: BFS over (graph, memoised-entry set) with one mutation or one read per transition; "
                "every value read is compared with the recomputation from net.graph at that moment",
    }
    assumptions = [
        "universe of 3 nodes, 2 links, 2 origins, 2 destinations; longer histories than the bound are not explored",
        "27 mutating calls; in the longest histories of explorer A (length >= 3) and in explorer C the positions after the "
        "first range over the first 21 of them (without the generator add_nodes, the four-entry bulk call and the keyword forms)",
        "explorer B merges states on (graph, memoised names) - sound only while memoisation lives in the instance "
        "__dict__ (explorer A makes no such assumption)",
        "where one element object is attached at two places the dict-shaped lookups are ambiguous: any pair present "
        "in the graph is accepted",
        "the 'randomly beyond the bound' clause of the property is not implemented (sampling is another family)",
    ]
    return st, cov, assumptions


def replay(case):
    st = Stats()
    hist = [(k, tuple(tuple(y) if isinstance(y, list) else y for y in x) if isinstance(x, list) else x)
            for k, x in case["history"]]
    hist = [(k, _detuple(x)) for k, x in case["history"]]
    problems, net, U = run_history(hist, st)
    snap = snapshot(net, U)
    for name in cached_names(net):
        if name in LOOKUPS:
            msg = check_lookup(name, observe(net, U, name), snap)
            if msg is not None:
                problems.append((f"C08/stale/{name}", msg))
    lines = ["history:"] + [f"   {k} {x}" for k, x in hist] + [f"graph now: {snap.to_json()}"]
    for sig, msg in problems:
        lines.append(f"  {sig}: {msg}")
    return lines, bool(problems)


def _detuple(x):
    if isinstance(x, list):
        return tuple(_detuple(y) for y in x)
    return x
