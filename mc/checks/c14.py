"""C14 — dynamics are invariant to construction order, names and turn-rate scaling.

Space N x construction histories: for every valid shape/configuration within the bound
 (a) ALL permutations of its construction-call list (links, origins, destinations; nodes added
     implicitly) when it has <= 6 calls, otherwise every order within 2 transpositions of the
     base order; plus explicit-nodes-first, bulk add_links and add_path-based construction;
 (b) 4 renamings (reversed, rotated, one shared prefix with equal names, library auto-names);
 (c) for every node with >= 2 leaving links every factor in {1e-3, 1/2, 2, 7} on its turn rates.
Oracle (metamorphic, real code on both sides): per element (matched by spec identity) identical
next states (1e-12 relative); recovered inflow share
q_{m,0} / sum q_{mu,0} == beta_m / sum beta_mu at every node with >= 2 leaving links.
"""
from __future__ import annotations

import itertools
from dataclasses import replace

import numpy as np

from .. import env
from ..core import Stats, exc_site, exc_text
from ..fn import eval_layout
from ..harness import close, cs_compile, np_step
from ..layout import Layout
from ..netgen import MODEL_PARAMS, all_specs, harness_specs
from ..parallel import run_shards, shards_of
from ..spec import NetSpec, build
from .. import valgen

FACTORS = (1e-3, 0.5, 2.0, 7.0)


def base_calls(spec: NetSpec):
    return ([("link", i) for i in range(len(spec.links))] + [("origin", o.node) for o in spec.origins]
            + [("dest", d.node) for d in spec.dests])


def orders(spec: NetSpec, max_full=6, transpositions=2):
    calls = base_calls(spec)
    seen = set()
    out = []

    def emit(name, o):
        t = tuple(o)
        if t not in seen:
            seen.add(t)
            out.append((name, list(o)))

    if len(calls) <= max_full:
        for perm in itertools.permutations(calls):
            emit("perm", perm)
    else:
        emit("base", calls)
        n = len(calls)
        swaps = list(itertools.combinations(range(n), 2))
        for a, b in swaps:
            c = list(calls)
            c[a], c[b] = c[b], c[a]
            emit("1-transposition", c)
            for a2, b2 in (swaps if transpositions >= 2 else []):
                c2 = list(c)
                c2[a2], c2[b2] = c2[b2], c2[a2]
                emit("2-transpositions", c2)
    emit("nodes-first", [("nodes",)] + calls)
    emit("nodes-reversed-first", [("node", i) for i in reversed(range(spec.n))] + calls)
    emit("bulk-links", [("links", tuple(reversed(range(len(spec.links)))))] + calls[len(spec.links):])
    # add_path based: greedy path cover
    left = list(range(len(spec.links)))
    pcalls = []
    used_o, used_d = set(), set()
    while left:
        path = [left.pop(0)]
        ext = True
        while ext:
            ext = False
            for j in list(left):
                if spec.links[j].u == spec.links[path[-1]].v:
                    path.append(j)
                    left.remove(j)
                    ext = True
                    break
        first, last = spec.links[path[0]].u, spec.links[path[-1]].v
        wo = spec.origin_at(first) is not None and first not in used_o
        wd = spec.dest_at(last) is not None and last not in used_d
        if wo:
            used_o.add(first)
        if wd:
            used_d.add(last)
        pcalls.append(("path", tuple(path), wo, wd))
    pcalls += [("origin", o.node) for o in spec.origins if o.node not in used_o]
    pcalls += [("dest", d.node) for d in spec.dests if d.node not in used_d]
    emit("paths", pcalls)
    return out


def renamings(spec: NetSpec):
    keys = [f"n{i}" for i in range(spec.n)] + spec.link_keys() + [f"O{o.node}" for o in spec.origins] + \
           [f"D{d.node}" for d in spec.dests]
    rev = {k: k2 for k, k2 in zip(keys, reversed(keys))}
    rot = {k: f"{keys[(i + 3) % len(keys)]}_x" for i, k in enumerate(keys)}
    same = {k: "e" for k in keys}
    auto = {k: None for k in keys}
    return [("reversed", rev, True), ("rotated", rot, True), ("all-equal", same, False), ("auto-names", auto, True)]


def nexts_equal(a, b, tol):
    for k, lst in a.items():
        for j, x in enumerate(lst):
            y = b[k][j]
            ok = (x == y or (x != x and y != y)) if tol == 0 else (close(x, y, tol) or (x != x and y != y))
            if not ok:
                return f"next {k[1]}[{j}] of {k[0]}: {x!r} vs {y!r}"
    return None


def check_spec(spec: NetSpec, label, st: Stats, plan):
    problems = []
    P = MODEL_PARAMS[plan["pset"]]
    vecs = list(valgen.vectors(spec, 0))
    dvecs = list(valgen.vectors(spec, plan["d"]))
    case0 = {"spec": spec.describe(), "config": label, "P": P}
    try:
        base = [np_step(spec, v, P)[0] for _, v in vecs]
        F0, b0, _ = cs_compile(spec, "SX", P, compact=2, more_out=True)
        lay0 = Layout(spec, compact=2, more_out=True)
        base_sx = eval_layout(F0, lay0, [v for _, v in dvecs])
    except Exception as e:  # noqa: BLE001
        return [(f"C14/exception/{exc_site(e)}/{type(e).__name__}", f"base network: {exc_text(e)}", case0)]
    st.inc("executions", len(vecs) + len(dvecs))
    # (a) construction orders ---------------------------------------------------------
    ords = orders(spec, plan.get("max_full", 6), plan.get("transpositions", 2))
    for oi, (oname, order) in enumerate(ords):
        st.inc("transitions", len(order))
        st.inc("orders")
        case = dict(case0, order=[list(c) for c in order], order_kind=oname)
        try:
            for (vl, v), ref in zip(vecs, base):
                got = np_step(spec, v, P, built=build(spec, order=order))[0]
                st.inc("executions")
                msg = nexts_equal(got, ref, 1e-12)
                if msg:
                    problems.append((f"C14/order/{oname}/numpy", f"order {order}: {msg} (base order) at {vl}", case))
                    break
            if oi % plan["sx_every"] == 0:
                b = build(spec, order=order)
                F, _, _ = cs_compile(spec, "SX", P, compact=2, built=b, more_out=True)
                lay = Layout(spec, order=order, compact=2, more_out=True)
                got = eval_layout(F, lay, [v for _, v in dvecs])
                st.inc("executions", len(dvecs))
                for (vl, v), g, r in zip(dvecs, got, base_sx):
                    bad = [s for s in r if not (close(g[s], r[s], 1e-12) or (g[s] != g[s] and r[s] != r[s]))]
                    if bad:
                        problems.append((f"C14/order/{oname}/SX", f"order {order}: result {bad[0]} = {g[bad[0]]!r} vs {r[bad[0]]!r} "
                                         f"(base order) at {vl}", case))
                        break
        except Exception as e:  # noqa: BLE001
            problems.append((f"C14/exception/{exc_site(e)}/{type(e).__name__}", f"order {order}: {exc_text(e)}", case))
    # (b) renamings -----------------------------------------------------------------------
    for rname, names, unique in renamings(spec):
        case = dict(case0, renaming=rname)
        st.inc("renamings")
        try:
            for (vl, v), ref in zip(vecs, base):
                got = np_step(spec, v, P, built=build(spec, names=names))[0]
                st.inc("executions")
                msg = nexts_equal(got, ref, 1e-12)
                if msg:
                    problems.append((f"C14/renaming/{rname}/numpy", f"{msg} (original names) at {vl}", case))
                    break
            b = build(spec, names=names)
            F, _, _ = cs_compile(spec, "SX", P, compact=2, built=b, more_out=True)
            got = eval_layout(F, lay0, [v for _, v in dvecs])
            st.inc("executions", len(dvecs))
            for (vl, v), g, r in zip(dvecs, got, base_sx):
                # not bitwise: with equal names the library (fix F9) compiles without common-subexpression
                # elimination, which may change the last bit of a result
                bad = [s for s in r if not (close(g[s], r[s], 1e-12) or (g[s] != g[s] and r[s] != r[s]))]
                if bad:
                    problems.append((f"C14/renaming/{rname}/SX", f"result {bad[0]} = {g[bad[0]]!r} vs {r[bad[0]]!r} at {vl}", case))
                    break
        except Exception as e:  # noqa: BLE001
            problems.append((f"C14/exception/{exc_site(e)}/{type(e).__name__}", f"renaming {rname}: {exc_text(e)}", case))
    # (c) turn rates --------------------------------------------------------------------------
    T = P["T"]
    for node in range(spec.n):
        outs = spec.out_links(node)
        if len(outs) < 2:
            continue
        # share: NumPy results and (same vectors come first in dvecs) the compiled SX function
        sx_as_np = [{("L%d" % m, "rho"): [r[("x+", "L%d" % m, "rho", 0)]] for m in outs} for r in base_sx[:1]]
        for (vl, v), ref in list(zip(vecs, base)) + list(zip([(dvecs[0][0] + " (SX)", dvecs[0][1])], sx_as_np)):
            q0 = {}
            for m in outs:
                l = spec.links[m]
                q1 = v[(f"L{m}", "rho")][0] * v[(f"L{m}", "v")][0] * l.lam
                q0[m] = (ref[(f"L{m}", "rho")][0] - v[(f"L{m}", "rho")][0]) * l.lam * l.L / T + q1
            tot = sum(q0.values())
            bsum = sum(spec.links[m].beta for m in outs)
            st.inc("shares_checked", len(outs))
            for m in outs:
                if abs(tot) > 1e-9 and not close(q0[m] / tot, spec.links[m].beta / bsum, 1e-7):
                    problems.append((f"C14/share/in{min(len(spec.in_links(node)), 2)}",
                                     f"node {node}: link L{m} receives share {q0[m] / tot!r} of the inflow, turn rates give "
                                     f"{spec.links[m].beta / bsum!r} at {vl}", dict(case0, node=node)))
                    break
        # turn rates given as 0-d NumPy arrays instead of plain numbers (a legal way of passing them): same results,
        # also on a second step of the same objects, and the arrays are left untouched
        st.inc("scalings")
        try:
            ov = {(f"L{m}", "beta"): np.array(float(spec.links[m].beta)) for m in outs}
            keep = {k_: a.copy() for k_, a in ov.items()}
            b_arr = build(spec, override=ov)
            for rep in (1, 2):
                for (vl, v), ref in zip(vecs, base):
                    got = np_step(spec, v, P, built=b_arr)[0]
                    st.inc("executions")
                    msg = nexts_equal(got, ref, 1e-12)
                    if msg is None and any(float(a) != float(keep[k_]) for k_, a in ov.items()):
                        msg = f"turn-rate arrays changed to { {k_[0]: float(a) for k_, a in ov.items()} }"
                    if msg:
                        problems.append(("C14/array-turnrates/numpy", f"turn rates of node {node} given as 0-d arrays (step {rep} on the "
                                         f"same objects): {msg} at {vl}", dict(case0, node=node)))
                        break
        except Exception as e:  # noqa: BLE001
            problems.append((f"C14/exception/{exc_site(e)}/{type(e).__name__}", f"array turn rates: {exc_text(e)}", dict(case0, node=node)))
        for f in FACTORS:
            st.inc("scalings")
            sp2 = replace(spec, links=tuple(replace(l, beta=l.beta * f) if l.u == node else l for l in spec.links))
            case = dict(case0, node=node, factor=f)
            try:
                for (vl, v), ref in zip(vecs, base):
                    got = np_step(sp2, v, P)[0]
                    st.inc("executions")
                    msg = nexts_equal(got, ref, 1e-12)
                    if msg:
                        problems.append(("C14/scaling/numpy", f"turn rates of node {node} x {f}: {msg} at {vl}", case))
                        break
                F, _, _ = cs_compile(sp2, "SX", P, compact=2, more_out=True)
                got = eval_layout(F, lay0, [v for _, v in dvecs])
                st.inc("executions", len(dvecs))
                for (vl, v), g, r in zip(dvecs, got, base_sx):
                    bad = [s for s in r if not (close(g[s], r[s], 1e-12) or (g[s] != g[s] and r[s] != r[s]))]
                    if bad:
                        problems.append(("C14/scaling/SX", f"turn rates of node {node} x {f}: result {bad[0]} = {g[bad[0]]!r} vs "
                                         f"{r[bad[0]]!r} at {vl}", case))
                        break
            except Exception as e:  # noqa: BLE001
                problems.append((f"C14/exception/{exc_site(e)}/{type(e).__name__}", f"scaling: {exc_text(e)}", case))
    return problems


def worker(item):
    plan, specs = item
    st = Stats()
    for label, spec in specs:
        st.inc("states")
        problems = check_spec(spec, label, st, plan)
        st.outcome((spec.n, len(spec.links), len(problems) == 0))
        if len(st.samples) < 1 and len(spec.links) >= 3:
            o = orders(spec)
            st.sample({"config": label, "spec": spec.describe(), "n_orders": len(o), "an_order": o[len(o) // 2][1]})
        for sig, msg, case in problems:
            st.violation(sig, f"{spec.short()}: {msg}", case)
    return st


def plans(tier, seed):
    pal = (seed + 2) % 3
    if tier == "quick":
        jobs = [({"pset": 0, "d": 0, "sx_every": 12}, [(lab, s) for _, lab, s in all_specs(3, 3, 0, pal)]),
                ({"pset": 0, "d": 0, "sx_every": 12, "max_full": 4, "transpositions": 1},
                 [(lab, s) for _, lab, s in all_specs(3, 3, 1, pal) if lab.startswith("dev:")])]
        bounds = {"shapes": "(n,m)<=(3,3): base+uniform configurations with all permutations (<=6 calls, else <=2 transpositions); "
                            "single-element deviations with all permutations for <=4 calls, else all single transpositions",
                  "vectors": "2 base vectors", "sx_orders": "every 12th order also through SX", "palette": pal}
    else:
        a = [(lab, s) for _, lab, s in all_specs(3, 4, 0, pal)]
        a1 = [(lab, s) for _, lab, s in all_specs(3, 3, 1, pal) if lab.startswith("dev:")]
        b = [(lab, s) for _, lab, s in all_specs(4, 4, 0, pal) if s.n == 4]
        jobs = [({"pset": 0, "d": 1, "sx_every": 6}, a), ({"pset": 2, "d": 0, "sx_every": 12}, a1),
                ({"pset": 1, "d": 0, "sx_every": 12, "transpositions": 1}, b)]
        bounds = {"shapes": "(3,4) base+uniform with single excursions on SX; (3,3) single-element deviations; 4-node shapes (4,4) "
                            "base+uniform with all permutations for <=6 calls else single transpositions", "palette": pal}
    return jobs, bounds


def explore(tier, seed, nproc):
    jobs, bounds = plans(tier, seed)
    st = Stats()
    nets = 0
    for plan, specs in jobs:
        nets += len(specs)
        st.merge(run_shards(worker, [(plan, sh) for sh in shards_of(specs, nproc * 8)], nproc))
    cov = {"bounds": bounds, "networks": nets, "factors": FACTORS,
           "rule": "a state is one (network program, construction order | renaming | scaled turn rates); each related network "
                   "is built through the real API and stepped; per-element next states are compared with the base network"}
    assumptions = ["orders: all permutations for <=6 calls, else within 2 transpositions", "tolerance 1e-12 relative (also for renaming: equal names switch off CasADi cse, which can change the last bit)",
                   "equal-name renaming is checked on NumPy and through the positional (compact 2) function only"]
    return st, cov, assumptions


def replay(case):
    spec = NetSpec.from_json(case["spec"])
    st = Stats()
    plan = {"pset": MODEL_PARAMS.index(case["P"]) if case["P"] in MODEL_PARAMS else 0, "d": 0, "sx_every": 1}
    problems = check_spec(spec, "?", st, plan)
    lines = [f"network {spec.short()}"] + [f"  {sig}: {msg}" for sig, msg, c in problems[:20]]
    return lines, bool(problems)
