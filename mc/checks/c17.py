"""C17 — origin flows respect demand, capacity and space limits; queues stay non-negative.

 (a) primitive level: the FULL product of the admissible alphabets for the mainstream, metered
     (both variants) and limited simplified origin flows, on both engines;
 (b) network level: the origin flows (reported q_o of the compiled function; recovered from the
     queue update under NumPy) and next queues of every network/configuration within the bound
     on every admissible single-excursion vector.
Oracle: 0 <= q <= d + w/T; q <= C (mainstream: <= lanes * V(rho_crit) * rho_crit); q == 0 when the
first segment is at maximum density (metered, limited simplified); w+ >= 0.
"""
from __future__ import annotations

import itertools
import math

import casadi as cs
import numpy as np

from .. import env
from ..core import Stats, exc_site, exc_text
from ..fn import eval_layout
from ..harness import np_step
from ..layout import Layout
from ..netgen import MODEL_PARAMS, all_specs
from ..parallel import run_shards, shards_of
from ..spec import NetSpec, build, build_edited
from .. import valgen

INF = float("inf")
TOL = 1e-9


def bounds_ok(kind, q, d, w, T, cap, at_max):
    """Returns None or the name of the violated bound."""
    if q != q:
        return "nan"
    sc = max(1.0, abs(d + w / T), abs(cap))
    if q < -TOL * sc:
        return "negative"
    if q > d + w / T + TOL * sc:
        return "exceeds-demand-plus-queue"
    if q > cap + TOL * sc:
        return "exceeds-capacity"
    if at_max and abs(q) > TOL * sc:
        return "nonzero-at-max-density"
    wn = w + T * (d - q)
    if wn < -TOL * max(1.0, w, T * d):
        return "negative-next-queue"
    return None


def prim_cases(tier):
    D = (0.0, 300.0, 5000.0)
    W = (0.0, 2.0, 50.0)
    Ts = (10 / 3600, 8 / 3600) if tier == "quick" else (10 / 3600, 8 / 3600, 15 / 3600)
    links = ((180.0, 33.5, 1.867, 102.0, 2), (160.0, 28.0, 2.3, 120.0, 3))
    for rmax, rc, a, vf, lam in links:
        rhos = (0.0, 0.5 * rc, rc, 0.5 * (rc + rmax), rmax)
        speeds = (0.0, 0.03 * vf, 0.049 * vf, 0.05 * vf, 0.4 * vf, vf * math.exp(-1 / a), 0.8 * vf, 1.1 * vf)
        for d, w, T in itertools.product(D, W, Ts):
            for vc in (0.0, 3.0, 20.0, 60.0, 200.0, INF):
                for v1 in speeds:
                    yield ("main", (d, w, vc, v1, rc, a, vf, lam, T), d, w, T, lam * vf * math.exp(-1 / a) * rc, False)
            for C in (1500.0, 2500.0):
                for rho1 in rhos:
                    for r in (0.0, 0.5, 1.0):
                        for typ in ("in", "out"):
                            yield (f"ramp_{typ}", (d, w, C, r, rmax, rho1, rc, T, typ), d, w, T, C, rho1 == rmax)
                    for qd in (0.0, 400.0, 1e6, INF):
                        yield ("simp_lim", (qd, d, w, C, rmax, rho1, rc, T, "limited"), d, w, T, C, rho1 == rmax)


def call_prim(engine, kind, args, np_side):
    if np_side:
        conv = lambda x: x if isinstance(x, str) else np.array([float(x)])  # noqa: E731
    else:
        conv = lambda x: x if isinstance(x, str) else cs.DM(float(x))  # noqa: E731
    a = list(args)
    if kind == "main":
        idx = (0, 1, 2, 3)
        f = engine.origins.get_mainstream_flow
    elif kind.startswith("ramp"):
        idx = (0, 1, 3, 5)
        f = engine.origins.get_ramp_flow
    else:
        idx = (0, 1, 2, 5)
        f = engine.origins.get_simplifiedramp_flow
    for i in idx:
        a[i] = conv(a[i])
    r = f(*a)
    return float(np.asarray(r.full() if hasattr(r, "full") else r, dtype=float).ravel()[0])


def worker_prim(item):
    tier, k, K = item
    st = Stats()
    ne, ce = env.numpy_engine(), env.casadi_engine("SX")
    for i, (kind, args, d, w, T, cap, at_max) in enumerate(prim_cases(tier)):
        if i % K != k:
            continue
        st.inc("states")
        for ename, eng, np_side in (("numpy", ne, True), ("casadi", ce, False)):
            st.inc("executions")
            st.inc("transitions")
            try:
                q = call_prim(eng, kind, args, np_side)
            except Exception as e:  # noqa: BLE001
                st.violation(f"C17/{kind}/exception/{type(e).__name__}", f"{ename} {kind}{args}: {exc_text(e)}",
                             {"level": "primitive", "kind": kind, "args": list(args), "engine": ename})
                continue
            bad = bounds_ok(kind, q, d, w, T, cap, at_max)
            st.outcome((kind, bad))
            if bad:
                st.violation(f"C17/{kind}/{bad}", f"{ename} {kind}{args}: flow {q!r} (demand+queue/T = {d + w / T!r}, capacity {cap!r})",
                             {"level": "primitive", "kind": kind, "args": list(args), "engine": ename, "d": d, "w": w, "T": T,
                              "cap": cap, "at_max": at_max})
        if len(st.samples) < 1 and i > 50:
            st.sample({"level": "primitive", "kind": kind, "args": ["inf" if x == INF else x for x in args]})
    return st


def check_spec(spec: NetSpec, label, st: Stats, plan):
    problems = []
    P = MODEL_PARAMS[plan["pset"]]
    T = P["T"]
    bounded = [o for o in spec.origins if o.kind in ("main", "ramp_out", "ramp_in", "simp_lim")]
    if not bounded:
        return problems
    vecs = [(l_, v) for l_, v in valgen.vectors(spec, plan["d"]) if valgen.admissible(spec, v)]

    def judge(engine, vlabel, val, qo_of, wn_of):
        for o in bounded:
            k = f"O{o.node}"
            li = spec.out_links(o.node)[0]
            l = spec.links[li]
            d, w = val[(k, "d")][0], val[(k, "w")][0]
            cap = o.C if o.kind != "main" else l.lam * l.v_free * math.exp(-1 / l.a) * l.rho_crit
            at_max = o.kind != "main" and val[(f"L{li}", "rho")][0] == l.rho_max
            q = qo_of(k)
            st.inc("flows_checked")
            bad = bounds_ok(o.kind, q, d, w, T, cap, at_max)
            if not bad and wn_of(k) < -TOL * max(1.0, w, T * d):
                bad = "negative-next-queue"
            if bad:
                problems.append((f"C17/{o.kind}/{bad}", f"{engine}: flow of {k} = {q!r}, next queue {wn_of(k)!r} (d={d}, w={w}, "
                                 f"capacity {cap!r}) at {vlabel}",
                                 {"level": "network", "spec": spec.describe(), "config": label, "P": P, "engine": engine,
                                  "val": {f"{kk[0]}.{kk[1]}": v for kk, v in val.items()}}))

    for vlabel, val in vecs:
        st.inc("executions")
        st.inc("transitions")
        try:
            nxt, _, _ = np_step(spec, val, P)
        except Exception as e:  # noqa: BLE001
            problems.append((f"C17/exception/{exc_site(e)}/{type(e).__name__}", f"numpy: {exc_text(e)}",
                             {"level": "network", "spec": spec.describe(), "config": label, "P": P}))
            break
        judge("numpy", vlabel, val,
              lambda k: val[(k, "d")][0] - (nxt[(k, "w")][0] - val[(k, "w")][0]) / T if abs(nxt[(k, "w")][0]) != INF else INF,
              lambda k: nxt[(k, "w")][0])
    # the same objects were first stepped with a THREE TIMES SHORTER sampling time (a longer step admits less flow per hour
    # from the same queue: a sampling time remembered from the first step would break the bounds)
    from ..spec import build as _build
    for vlabel, val in vecs[:: max(1, len(vecs) // 24)]:
        st.inc("executions", 2)
        st.inc("transitions", 2)
        try:
            b_ = _build(spec)
            np_step(spec, val, dict(P, T=T / 3.0), built=b_)
            nxt, _, _ = np_step(spec, val, P, built=b_)
        except Exception as e:  # noqa: BLE001
            problems.append((f"C17/exception/{exc_site(e)}/{type(e).__name__}", f"numpy, second step with another sampling time: "
                             f"{exc_text(e)}", {"level": "network", "spec": spec.describe(), "config": label, "P": P}))
            break
        judge("numpy, second step (the first had a three times shorter sampling time)", vlabel, val,
              lambda k: val[(k, "d")][0] - (nxt[(k, "w")][0] - val[(k, "w")][0]) / T if abs(nxt[(k, "w")][0]) != INF else INF,
              lambda k: nxt[(k, "w")][0])
    # the same network reached by editing another, already stepped one in place (stale neighbour lookups)
    for emode in ("replace", "links", "attachments", "params"):
        for vlabel, val in vecs[:: max(1, len(vecs) // 12)]:
            st.inc("executions", 2)
            st.inc("transitions", 4)
            try:
                eng_ = env.numpy_engine(np.float64(27.5))
                nxt, _, _ = np_step(spec, val, P, built=build_edited(spec, P, emode, engine=eng_), engine=eng_)
            except Exception as e:  # noqa: BLE001
                problems.append((f"C17/exception/{exc_site(e)}/{type(e).__name__}", f"numpy, network edited in place ({emode}): "
                                 f"{exc_text(e)}", {"level": "network", "spec": spec.describe(), "config": label, "P": P}))
                break
            judge(f"numpy, network edited in place ({emode}) after a step", vlabel, val,
                  lambda k: val[(k, "d")][0] - (nxt[(k, "w")][0] - val[(k, "w")][0]) / T if abs(nxt[(k, "w")][0]) != INF else INF,
                  lambda k: nxt[(k, "w")][0])
    try:
        eng = env.casadi_engine("SX")
        b = build(spec)
        b.net.step(engine=eng, **P)
        F = eng.to_function(b.net, compact=0, more_out=True, **P)
        lay = Layout(spec, compact=0, more_out=True)
        outs = eval_layout(F, lay, [v for _, v in vecs])
        st.inc("executions", len(vecs))
        for (vlabel, val), o in zip(vecs, outs):
            judge("SX", vlabel, val, lambda k: o[("q_o", k)], lambda k: o[("x+", k, "w", 0)])
    except Exception as e:  # noqa: BLE001
        problems.append((f"C17/exception/{exc_site(e)}/{type(e).__name__}", f"SX: {exc_text(e)}",
                         {"level": "network", "spec": spec.describe(), "config": label, "P": P}))
    return problems


def worker_net(item):
    plan, specs = item
    st = Stats()
    for label, spec in specs:
        st.inc("states")
        problems = check_spec(spec, label, st, plan)
        if len(st.samples) < 1 and len(spec.origins) >= 2:
            st.sample({"level": "network", "config": label, "spec": spec.describe()})
        for sig, msg, case in problems:
            st.violation(sig, f"{spec.short()}: {msg}", case)
    return st


def explore(tier, seed, nproc):
    st = run_shards(worker_prim, [(tier, k, nproc * 2) for k in range(nproc * 2)], nproc)
    prim_states = st.c.get("states", 0)
    pal = seed % 3
    if tier == "quick":
        jobs = [({"pset": 0, "d": 1}, [(lab, s) for _, lab, s in all_specs(3, 3, 1, pal)])]
        bounds = {"network_level": "(n,m)<=(3,3) c<=1, admissible single excursions", "palette": pal}
    else:
        jobs = [({"pset": 0, "d": 1}, [(lab, s) for _, lab, s in all_specs(3, 4, 1, pal)]),
                ({"pset": 2, "d": 2}, [(lab, s) for _, lab, s in all_specs(3, 3, 0, pal)])]
        bounds = {"network_level": "(3,4) c<=1 single excursions; (3,3) base+uniform with pair excursions", "palette": pal}
    nets = 0
    for plan, specs in jobs:
        nets += len(specs)
        st.merge(run_shards(worker_net, [(plan, sh) for sh in shards_of(specs, nproc * 8)], nproc))
    cov = {"primitive_tuples": prim_states, "networks": nets, "bounds": bounds,
           "rule": "primitive level: a state is one admissible argument tuple (full product of the alphabets, both engines); "
                   "network level: a state is one network program, flows judged on every admissible vector"}
    assumptions = ["admissible = non-negative queue/demand/speeds/desired flow, rate in [0,1], first-segment density <= maximum",
                   "unlimited simplified ramps and ideal origins have no bound to check",
                   "tolerance 1e-9 relative to max(1, demand+queue/T, capacity)"]
    return st, cov, assumptions


def replay(case):
    st = Stats()
    if case.get("level") == "primitive":
        args = tuple(INF if a == "inf" else a for a in case["args"])
        eng = env.numpy_engine() if case["engine"] == "numpy" else env.casadi_engine("SX")
        q = call_prim(eng, case["kind"], args, case["engine"] == "numpy")
        bad = bounds_ok(case["kind"], q, case["d"], case["w"], case["T"], case["cap"], case["at_max"]) if "cap" in case else None
        return [f"{case['engine']} {case['kind']}{args} -> {q!r}; violated bound: {bad}"], bool(bad)
    spec = NetSpec.from_json(case["spec"])
    problems = check_spec(spec, "?", st, {"pset": MODEL_PARAMS.index(case["P"]) if case["P"] in MODEL_PARAMS else 0, "d": 1})
    lines = [f"network {spec.short()}"] + [f"  {s}: {m}" for s, m, c in problems[:20]]
    return lines, bool(problems)
