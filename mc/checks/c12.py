"""C12 — stepping is a pure, repeatable function of the supplied values.

Space H: on harness networks that together contain every element kind, all histories up to a
length over the operations
   step(engine in {NumPy, SX, MX}, value set in {V1, V2}, options in {none, all positive})
   NumPy step fed with the arrays of the previous next_states (simulation-loop style)
   to_function(compact in {0, 2})
executed on the same network objects with caller-held arrays / symbols and dictionaries.
Oracle after every operation: every caller-held array equals its deep snapshot bit for bit,
every supplied dictionary has the same keys and the same objects, every element parameter is
unchanged; every occurrence of a step yields bitwise the same next states (NumPy) / the same
compiled function values (CasADi) as the same step on a fresh network.
A second family gives all link/origin/model parameters as 0-d NumPy arrays (NumPy-only
histories) so that an in-place update of a parameter is observable.
"""
from __future__ import annotations

import copy
import itertools

import casadi as cs
import numpy as np

from .. import env
from ..core import Stats, exc_site, exc_text
from ..harness import Compiled, np_inputs, read_next
from ..netgen import MODEL_PARAMS, harness_specs
from ..parallel import run_shards, shards_of
from ..spec import NetSpec, build
from .. import valgen

ALLPOS = {"positive_init_speed": True, "positive_init_density": True, "positive_init_queue": True,
          "positive_next_speed": True, "positive_next_density": True, "positive_next_queue": True}
P = MODEL_PARAMS[0]
P_ALT = dict(T=7 / 3600, tau=21 / 3600, eta=52.0, kappa=33.0, delta=0.03, phi=1.2)
LINK_PARAMS = ("N", "lam", "L", "rho_max", "rho_crit", "v_free", "a", "turnrate")

OPS_A = ([("step", e, j, o) for e in ("numpy", "SX", "MX") for j in (0, 1) for o in (0, 1)]
         + [("feedback", o) for o in (0, 1)] + [("tofun", 0), ("tofun", 2)]
         # value set 2 = no init_conditions at all: the engine creates the symbols itself
         + [("step", e, 2, o) for e in ("SX", "MX") for o in (0, 1)]
         # the same caller values/symbols again, but other model parameters (sampling time, tau, ...)
         + [("stepP", "numpy", 0), ("stepP", "SX", 0)]
         # the caller overwrites the contents of the retained arrays of value set 0 IN PLACE (buf[...] = new), as a
         # simulation loop does, before passing the same array objects again
         + [("inplace0",)]
         # a compilation with the extra flow outputs, a caller-held `parameters` dictionary (one declared symbol that enters
         # nothing) and a caller-held dictionary of keyword constants - both retained and passed again next time
         + [("tofunP",)]
         # the caller assigns other values to public element attributes (critical densities, maximum densities, capacities)
         # between two steps that re-use the same retained arrays / symbols, engine objects and parameter objects
         + [("setparams",)]
         # value set 3: a caller dictionary with an entry for EVERY element that holds only the states (the entries of
         # state-less elements are empty dictionaries); the NumPy engine creates the rest (constant fill)
         + [("step", "numpy", 3, 0)]
         # a simulation loop that hands the LIVE next_states dictionaries of the links back as their initial conditions
         + [("feedback", 2)])
OPS_B = [("step", "numpy", j, o) for j in (0, 1) for o in (0, 1)] + [("feedback", o) for o in (0, 1)] + [("inplace0",)]


def neg_some(val):
    """Value set 1 carries a few negative entries (first speed of every link, every queue): positivity options
    then really clamp, and an in-place clamp on the caller's arrays becomes visible."""
    out = {}
    for k, lst in val.items():
        if k[1] == "v":
            out[k] = [-lst[0]] + list(lst[1:])
        elif k[1] == "w":
            out[k] = [-x for x in lst]
        else:
            out[k] = list(lst)
    return out


def array_params(spec: NetSpec):
    ov = {}
    for i, l in enumerate(spec.links):
        for p in ("lam", "L", "rho_max", "rho_crit", "v_free", "a", "beta"):
            ov[(f"L{i}", p)] = np.array(float(getattr(l, p)))
        if l.vsl is not None:
            ov[(f"L{i}", "alpha")] = np.array(float(l.alpha))
    for o in spec.origins:
        ov[(f"O{o.node}", "C")] = np.array(float(o.C))
    return ov


def param_snapshot(built):
    snap = {}
    for key, el in built.obj.items():
        if key.startswith("L"):
            for p in LINK_PARAMS:
                snap[(key, p)] = copy.deepcopy(getattr(el, p))
            if hasattr(el, "vsl"):
                snap[(key, "vsl")] = list(el.vsl)
                snap[(key, "alpha")] = copy.deepcopy(el.alpha)
        elif key.startswith("O") and hasattr(el, "C"):
            snap[(key, "C")] = copy.deepcopy(el.C)
            snap[(key, "flow_eq_type")] = el.flow_eq_type
    return snap


def param_diff(built, snap):
    for (key, p), v in snap.items():
        cur = getattr(built.obj[key], p)
        a, b = np.asarray(cur, dtype=object if isinstance(cur, str) else None), np.asarray(v, dtype=object if isinstance(v, str) else None)
        if a.shape != b.shape or not np.array_equal(a, b):
            return f"parameter {p} of {key} changed from {v!r} to {cur!r}"
    return None


def edit_params(obj):
    for key, el in obj.items():
        if key.startswith("L"):
            el.rho_crit = el.rho_crit + 2.0
            el.rho_max = el.rho_max - 10.0
        elif key.startswith("O") and hasattr(el, "C"):
            el.C = el.C * 0.5


class Session:
    """One history: fresh network objects, caller-held inputs for both value sets."""

    def __init__(self, spec: NetSpec, family: str, order=None):
        self.spec = spec
        self.family = family
        self.built = build(spec, order=order, override=array_params(spec) if family == "B" else None)
        self.psnap = param_snapshot(self.built)
        self.P = {k: (np.array(float(v)) if family == "B" else v) for k, v in P.items()}
        self.Psnap = {k: float(v) for k, v in P.items()}
        self.np_ic = []
        self.np_snap = []
        for j in (0, 1):
            ic = np_inputs(self.built, neg_some(valgen.base_vector(spec, j)) if j == 1 else valgen.base_vector(spec, j))
            self.np_ic.append(ic)
            self.np_snap.append({el: {k: v.copy() for k, v in d.items()} for el, d in ic.items()})
        # value set 3: states only, an (empty) entry for every element
        full3 = np_inputs(self.built, valgen.base_vector(spec, 0))
        state_names = {(k_, v_) for k_, v_, n_ in spec.state_vars()}
        part = {}
        for key_, el_ in self.built.obj.items():
            if key_.startswith("n"):
                continue
            part[el_] = {v_: a_ for v_, a_ in full3.get(el_, {}).items() if (key_, v_) in state_names}
        self.np_ic.append(dict(self.np_ic[1]))  # (index 2 is unused: value set 2 means 'no init_conditions' for CasADi)
        self.np_snap.append({el: {k: v.copy() for k, v in d.items()} for el, d in self.np_ic[2].items()})
        self.np_ic.append(part)
        self.np_snap.append({el: {k: v.copy() for k, v in d.items()} for el, d in part.items()})
        self.cs_ic = {}
        self.engines = {"SX": env.casadi_engine("SX"), "MX": env.casadi_engine("MX")}
        self.last_cs = None
        self.symbolic_now = False  # the most recent step was a CasADi step with symbols for every variable
        self.pdicts = {sym: {"spare_parameter": getattr(cs, sym).sym("spare_parameter")} for sym in ("SX", "MX")}
        self.pdict_snap = {sym: dict(d) for sym, d in self.pdicts.items()}
        self.kwdict = dict(P)
        self.held = []  # (dict-of-arrays used as feedback input, snapshot)
        self.n_inplace = 0
        self.n_setparams = 0

    def cs_inputs(self, sym, j):
        if (sym, j) not in self.cs_ic:
            XX = getattr(cs, sym)
            ic = {}
            for key, var, n, role in self.spec.variables():
                ic.setdefault(self.built.obj[key], {})[var] = XX.sym(f"{var}_{key}_set{j}", n, 1)
            self.cs_ic[(sym, j)] = (ic, {el: {k: (v, str(v)) for k, v in d.items()} for el, d in ic.items()})
        return self.cs_ic[(sym, j)][0]

    # -- invariants -------------------------------------------------------------------
    def check_invariants(self):
        for j in (0, 1, 3):
            ic, snap = self.np_ic[j], self.np_snap[j]
            if set(map(id, ic)) != set(map(id, snap)):
                return "purity/dict", f"the supplied init-conditions dictionary (set {j}) has different element keys"
            for el, d in snap.items():
                if set(ic[el]) != set(d):
                    return "purity/dict", f"the supplied inner dictionary of {el.name} (set {j}) now has keys {sorted(ic[el])}"
                for k, v in d.items():
                    a = ic[el][k]
                    if a.shape != v.shape or not np.array_equal(a, v, equal_nan=True):
                        return f"purity/array/{k}", f"caller-held array {k} of {el.name} (set {j}) changed from {v.tolist()} to {a.tolist()}"
        for (sym, j), (ic, snap) in self.cs_ic.items():
            for el, d in snap.items():
                if set(ic[el]) != set(d):
                    return "purity/dict", f"the supplied inner dictionary of {el.name} ({sym} set {j}) now has keys {sorted(ic[el])}"
                for k, (obj, text) in d.items():
                    if ic[el][k] is not obj or str(obj) != text:
                        return f"purity/symbol/{k}", f"caller-held {sym} symbol {k} of {el.name} changed from {text} to {ic[el][k]}"
        for arrs, snap in self.held:
            for key, a in arrs.items():
                if not np.array_equal(a, snap[key], equal_nan=True):
                    return f"purity/fed-back-array/{key[1]}", (f"array of a previous next_states ({key}) that was supplied as an "
                                                               f"initial condition changed from {snap[key].tolist()} to {a.tolist()}")
        for sym, d in self.pdicts.items():
            snap = self.pdict_snap[sym]
            if list(d) != list(snap) or any(d[k] is not snap[k] for k in snap):
                return "purity/parameters-dict", f"the caller's `parameters` dictionary ({sym}) now has keys {list(d)}, it had {list(snap)}"
        if self.kwdict != dict(P) or list(self.kwdict) != list(P):
            return "purity/keyword-dict", f"the caller's dictionary of keyword constants changed to {self.kwdict}"
        msg = param_diff(self.built, self.psnap)
        if msg:
            return "purity/parameter", msg
        for k, v in self.P.items():
            if float(v) != self.Psnap[k]:
                return "purity/model-parameter", f"model parameter {k} changed from {self.Psnap[k]} to {float(v)}"
        return None

    # -- operations -------------------------------------------------------------------
    def apply(self, op):
        """Returns ('np', next arrays) / ('cs', values) / None observation."""
        k = op[0]
        net = self.built.net
        P_save = self.P
        if k == "stepP":
            op = ("step", op[1], op[2], 0)
            k = "step"
            self.P = {kk: (np.array(float(v)) if self.family == "B" else v) for kk, v in P_ALT.items()}
        try:
            return self._apply(op, k, net)
        finally:
            self.P = P_save

    def _apply(self, op, k, net):
        if k == "setparams":
            self.n_setparams += 1
            edit_params(self.built.obj)
            self.psnap = param_snapshot(self.built)
            return None
        if k == "inplace0":
            # legitimate caller action: new contents in the SAME array objects; the snapshots follow
            self.n_inplace += 1
            for el, d in self.np_ic[0].items():
                for name, arr in d.items():
                    if name in ("rho", "v"):
                        arr[...] = arr * (0.8 if name == "rho" else 1.05)
                        self.np_snap[0][el][name] = arr.copy()
            return None
        if k == "step":
            _, e, j, o = op
            opts = ALLPOS if o else {}
            if e == "numpy":
                self.symbolic_now = False
                net.step(init_conditions=self.np_ic[j], engine=env.numpy_engine(np.float64(30.0)) if j == 3 else env.numpy_engine(),
                         **self.P, **opts)
                return "np", {kk: np.array(v, dtype=float, copy=True) for kk, v in read_next(self.built).items()}
            eng = self.engines[e]
            if j == 2:
                net.step(engine=eng, **self.P, **opts)
            else:
                net.step(init_conditions=self.cs_inputs(e, j), engine=eng, **self.P, **opts)
            self.last_cs = e
            self.symbolic_now = True
            F = eng.to_function(net, compact=0)
            comp = Compiled(F, self.built)
            # caller symbols carry other names: map positionally through the network's own order
            vals = valgen.base_vector(self.spec, j % 2)
            if j == 1:
                vals = neg_some(vals)
            if j == 2:  # values with negative entries, so that a clamp left over from an earlier step shows
                vals = {k: ([-x for x in v] if k[1] in ("rho", "v", "w") else list(v)) for k, v in vals.items()}
            args = []
            for i in range(F.n_in()):
                nm = F.name_in(i)
                args.append(cs.DM(vals[comp.name2kv[nm]]))
            res = F(*args)
            res = res if isinstance(res, (list, tuple)) else [res]
            return "cs", [np.array(r.full()).ravel() for r in res]
        if k == "feedback":
            o = op[1]
            cur = {}
            ok = True
            for key, var, n in self.spec.state_vars():
                ns = self.built.obj[key].next_states
                if ns is None or var not in ns or not isinstance(ns[var], np.ndarray):
                    ok = False
                    break
                cur[(key, var)] = ns[var]
            if not ok:
                return None  # nothing numeric to feed back yet: the operation is a no-op
            ic = {el: dict(d) for el, d in self.np_ic[0].items()}
            for (key, var), arr in cur.items():
                ic[self.built.obj[key]][var] = arr
            if o == 2:
                # the links' own next_states dictionaries themselves (not copies) are the inner dictionaries
                for key, el in self.built.obj.items():
                    if key.startswith("L") and set(el.next_states) == {"rho", "v"} and set(ic[el]) == {"rho", "v"}:
                        ic[el] = el.next_states
            self.held.append((cur, {kk: v.copy() for kk, v in cur.items()}))
            self.symbolic_now = False
            # copies of everything that is supplied, taken BEFORE the step (a live next_states dictionary is the element's own)
            ic_copy = {el_: {n_: a_.copy() for n_, a_ in d_.items()} for el_, d_ in ic.items()}
            net.step(init_conditions=ic, engine=env.numpy_engine(), **self.P, **(ALLPOS if o == 1 else {}))
            got = {kk: np.array(v, dtype=float, copy=True) for kk, v in read_next(self.built).items()}
            # the same step from COPIES of those values on a freshly built network
            fresh = build(self.spec, override=array_params(self.spec) if self.family == "B" else None)
            for _ in range(self.n_setparams):
                edit_params(fresh.obj)
            fic = {fresh.obj[kk_]: ic_copy[self.built.obj[kk_]] for kk_ in fresh.obj if self.built.obj[kk_] in ic_copy}
            fresh.net.step(init_conditions=fic, engine=env.numpy_engine(), **{k_: (np.array(float(v_)) if self.family == "B" else float(v_))
                                                                               for k_, v_ in self.P.items()}, **(ALLPOS if o == 1 else {}))
            ref = {kk: np.array(v, dtype=float, copy=True) for kk, v in read_next(fresh).items()}
            return "np-direct", got, ref
        if k == "tofunP":
            sym = self.last_cs or "SX"
            eng = self.engines[sym]
            try:
                F = eng.to_function(net, compact=0, more_out=True, parameters=self.pdicts[sym], **self.kwdict)
            except RuntimeError:
                return None  # not ready (C19's business); must still leave everything untouched
            want = len(self.spec.variables()) + 1
            if self.symbolic_now and F.n_in() != want:
                raise AssertionError(f"to_function with one declared parameter has {F.n_in()} arguments {F.name_in()}, expected {want}")
            return None
        if k == "tofun":
            eng = self.engines[self.last_cs or "SX"]
            try:
                eng.to_function(net, compact=op[1])
            except RuntimeError:
                pass  # not ready (C19's business); must still leave everything untouched
            return None
        raise ValueError(op)


_REF = {}


def reversed_order(spec):
    """Downstream-first construction: links in reverse order with implicit nodes, so that the network's own
    enumeration steps a link before the link upstream of it."""
    return ([("link", i) for i in reversed(range(len(spec.links)))] + [("origin", o.node) for o in spec.origins]
            + [("dest", d.node) for d in spec.dests])


def order_of(name, spec):
    return reversed_order(spec) if name.endswith("-reversed") else None


def reference(spec, family, op, order=None, n_inplace=0, n_setparams=0):
    key = (spec, family, op, None if order is None else tuple(order), n_inplace, n_setparams)
    if key not in _REF:
        s = Session(spec, family, order)
        for _ in range(n_setparams):
            s.apply(("setparams",))
        for _ in range(n_inplace):
            s.apply(("inplace0",))
        _REF[key] = s.apply(op)
    return _REF[key]


def run_history(spec, family, hist, st: Stats, order=None):
    s = Session(spec, family, order)
    problems = []
    for i, op in enumerate(hist):
        st.inc("transitions")
        try:
            obs = s.apply(op)
        except Exception as e:  # noqa: BLE001
            problems.append((f"C12/exception/{op[0]}/{exc_site(e)}/{type(e).__name__}", f"operation {i} {op}: {exc_text(e)}"))
            return problems
        inv = s.check_invariants()
        if inv:
            problems.append((f"C12/{inv[0]}", f"after operation {i} {op}: {inv[1]}"))
            return problems
        if obs is not None and obs[0] == "np-direct":
            for kk, v in obs[2].items():
                a = obs[1][kk]
                st.inc("components_compared", v.size)
                if a.shape != v.shape or not np.array_equal(a, v, equal_nan=True):
                    problems.append((f"C12/not-repeatable/fed-back/{kk[1]}", f"operation {i} {op}: step fed with the arrays of the previous "
                                     f"next states: next {kk[1]} of {kk[0]} = {a.tolist()}, the same step from copies of those values "
                                     f"on a fresh network gives {v.tolist()}"))
                    return problems
        elif obs is not None and op[0] in ("step", "stepP"):
            ref = reference(spec, family, op, order, s.n_inplace if (len(op) > 2 and op[2] == 0) else 0, s.n_setparams)
            if obs[0] == "np":
                for kk, v in ref[1].items():
                    a = obs[1][kk]
                    st.inc("components_compared", v.size)
                    if a.shape != v.shape or not np.array_equal(a, v, equal_nan=True):
                        problems.append((f"C12/not-repeatable/numpy/{kk[1]}", f"operation {i} {op}: next {kk[1]} of {kk[0]} = "
                                         f"{a.tolist()}, the same step on a fresh network gives {v.tolist()}"))
                        return problems
            else:
                for a, v in zip(obs[1], ref[1]):
                    st.inc("components_compared", v.size)
                    # two separately compiled functions: equal up to the last bits (CasADi's common-subexpression
                    # elimination need not order operands identically in two compilations)
                    if a.shape != v.shape or not np.allclose(a, v, rtol=1e-12, atol=1e-12, equal_nan=True):
                        problems.append((f"C12/not-repeatable/{op[1]}", f"operation {i} {op}: compiled function value {a.tolist()}, "
                                         f"on a fresh network {v.tolist()}"))
                        return problems
    return problems


OPS_A_CORE = ([("step", "numpy", j, o) for j in (0, 1) for o in (0, 1)] + [("feedback", 0), ("feedback", 1)]
              + [("step", "SX", 0, 0), ("step", "SX", 2, 0), ("step", "SX", 2, 1), ("step", "MX", 2, 1), ("tofun", 0),
                 ("stepP", "SX", 0), ("inplace0",), ("setparams",)])


def worker(item):
    name, spec, family, firsts, length = item
    ops = {"A": OPS_A, "B": OPS_B, "Acore": OPS_A_CORE}[family]
    family = "A" if family == "Acore" else family
    st = Stats()
    for first in firsts:
        for rest in itertools.product(ops, repeat=length - 1):
            hist = (first,) + rest
            st.inc("states")
            st.inc("executions")
            problems = run_history(spec, family, hist, st, order_of(name, spec))
            st.outcome((name, family, len(problems) == 0))
            if len(st.samples) < 1 and length >= 3 and hist[0][0] == "step" and hist[1][0] != "tofun":
                st.sample({"network": name, "family": family, "history": hist})
            for sig, msg in problems:
                st.violation(sig, f"{name}/{family} history {hist}: {msg}",
                             {"network": name, "family": family, "history": hist, "spec": spec.describe()})
    return st


def explore(tier, seed, nproc):
    pal = seed % 3
    H = harness_specs(pal)
    nets = [(k, H[k]) for k in ("chain", "merge", "bifurcation", "twobytwo", "cycle_ramp", "interior_ramps", "merge_ramp")]
    nets += [("chain-reversed", H["chain"]), ("twobytwo-reversed", H["twobytwo"])]
    nets += [(k, H[k]) for k in ("tri_split", "tri_merge")]  # three leaving / three entering links
    # family A: every history over the full alphabet up to ka, plus every history over the core alphabet up to kc
    ka, kc = (2, 3) if tier == "quick" else (3, 4)
    kb = 4 if tier == "quick" else 5
    items = []
    for name, spec in nets:
        for k in range(1, ka + 1):
            items += [(name, spec, "A", [f], k) for f in OPS_A]
        for k in range(ka + 1, kc + 1):
            items += [(name, spec, "Acore", [f], k) for f in OPS_A_CORE]
        for k in range(1, kb + 1):
            items += [(name, spec, "B", [f], k) for f in OPS_B]
    st = run_shards(worker, items, nproc)
    cov = {"networks": [n for n, _ in nets], "palette": pal,
           "family_A": {"operations": len(OPS_A), "history_length_completed": ka,
                        "core_operations": len(OPS_A_CORE), "core_history_length_completed": kc},
           "family_B_array_parameters": {"operations": len(OPS_B), "history_length_completed": kb},
           "rule": "every history over the operations up to the length, on the same network objects with caller-held inputs; "
                   "invariants checked after every operation, each step compared with the same step on a fresh network"}
    assumptions = ["two value sets, two option sets; caller symbols compared by identity and printed form",
                   "family B (0-d array parameters) is NumPy-only because CasADi arithmetic with NumPy scalars on the left is "
                   "outside the library's documented use"]
    return st, cov, assumptions


def _detuple(x):
    return tuple(_detuple(y) for y in x) if isinstance(x, list) else x


def replay(case):
    spec = NetSpec.from_json(case["spec"])
    st = Stats()
    hist = tuple(_detuple(op) for op in case["history"])
    problems = run_history(spec, case["family"], hist, st, order_of(case["network"], spec))
    lines = [f"network {case['network']} family {case['family']} history:"] + [f"   {op}" for op in hist]
    lines += [f"  {sig}: {msg}" for sig, msg in problems]
    return lines, bool(problems)
