"""C01 — one-step dynamics equal the METANET equations on every valid network.

Space N x V: every valid shape up to isomorphism within (n, m), every configuration within
the deviation bound, model parameters with and without delta/phi; values: base vectors and
all single excursions over the branch-boundary alphabets through the real NumPy step, the
same (and pair excursions / local full products in the thorough tier) through the real
compiled CasADi function.  Oracle: the reference model (mc/refmodel.py), component by
component, with its three stated exclusions.
"""
from __future__ import annotations

import numpy as np

from .. import env
from ..core import Stats, exc_site, exc_text
from ..harness import Compiled, close, cs_compile, np_step
from ..netgen import MODEL_PARAMS, all_specs, harness_specs
from ..parallel import run_shards, shards_of
from ..spec import NetSpec, build, build_edited
from .. import refmodel, valgen

PROP = "C01"


def node_class(spec: NetSpec, node, side):
    i, o = len(spec.in_links(node)), len(spec.out_links(node))
    org, dst = spec.origin_at(node), spec.dest_at(node)
    if side == "up":
        return f"up[in{min(i, 2)},out{min(o, 2)},{org.kind if org else '-'}]"
    return f"dn[{'dest:' + dst.kind if dst else 'out' + str(min(o, 2))}]"


def comp_signature(spec: NetSpec, key, var, j):
    if key.startswith("O"):
        return f"{PROP}/w/{spec.origin_at(int(key[1:])).kind}"
    l = spec.links[int(key[1:])]
    pos = "only" if l.N == 1 else ("first" if j == 0 else ("last" if j == l.N - 1 else "mid"))
    parts = [PROP, var, pos]
    if pos in ("first", "only"):
        parts.append(node_class(spec, l.u, "up"))
    if var == "v" and pos in ("last", "only"):
        parts.append(node_class(spec, l.v, "dn"))
    if l.vsl is not None and var == "v" and j in l.vsl:
        parts.append("vsl")
    return "/".join(parts)


def compare(spec, nxt, ref, st, engine, case, out_problems):
    for (key, var), exp in ref.nxt.items():
        got = nxt.get((key, var))
        if got is None:
            out_problems.append((f"{PROP}/missing/{var}", f"{engine}: no next {var} for {key}", case))
            continue
        for j, (g, e) in enumerate(zip(got, exp)):
            reason = ref.skip.get((key, var, j))
            if reason:
                st.inc(f"skipped:{reason}")
                continue
            if e != e or abs(e) == float("inf"):
                # the model itself is undefined here (e.g. an unlimited ramp with infinite desired flow times a
                # zero speed): outside the admissible domain, nothing to compare
                st.inc("skipped:reference-not-finite")
                continue
            st.inc("components_compared")
            if not close(float(g), e):
                out_problems.append((comp_signature(spec, key, var, j),
                                     f"{engine}: next {var}[{j}] of {key} = {float(g)!r}, METANET gives {e!r}", case))


def check_spec(spec: NetSpec, label, st: Stats, plan):
    """plan: dict(np_d, cs_d, psets (indices), cs_sym)"""
    problems = []
    for pi in plan["psets"]:
        P = MODEL_PARAMS[pi]
        full = (pi == plan["psets"][0])
        # ---- NumPy path -----------------------------------------------------------
        vecs = list(valgen.vectors(spec, plan["np_d"] if full else 0))
        for vlabel, val in vecs:
            st.inc("executions")
            st.inc("transitions")
            case = {"spec": spec.describe(), "config": label, "P": P, "val": {f"{k[0]}.{k[1]}": v for k, v in val.items()},
                    "engine": "numpy"}
            try:
                nxt, built, raw = np_step(spec, val, P)
            except Exception as e:  # noqa: BLE001
                problems.append((f"{PROP}/exception/{exc_site(e)}/{type(e).__name__}", f"numpy: {exc_text(e)}", case))
                break
            ref = refmodel.step(spec, val, P)
            for b in ref.branches:
                st.add_to("branches", b)
            compare(spec, nxt, ref, st, "numpy", case, problems)
        # ---- read-mutate-read construction: every lookup is read after every construction call, so
        # that a lookup left stale by a later call would feed the step with an outdated network
        if full and not plan.get("light"):
            for vlabel, val in valgen.vectors(spec, 0):
                st.inc("executions")
                case = {"spec": spec.describe(), "config": label, "P": P, "val": {f"{k[0]}.{k[1]}": v for k, v in val.items()},
                        "engine": "numpy", "touch": True}
                try:
                    b = build(spec, touch=True)
                    # ... and the same objects are first stepped from the OTHER base vector (start from a non-initial state)
                    np_step(spec, valgen.base_vector(spec, 1 if vlabel == "base0" else 0), P, built=b)
                    nxt, built, raw = np_step(spec, val, P, built=b)
                except Exception as e:  # noqa: BLE001
                    problems.append((f"{PROP}/exception/{exc_site(e)}/{type(e).__name__}", f"numpy (lookups read during "
                                     f"construction): {exc_text(e)}", case))
                    break
                compare(spec, nxt, refmodel.step(spec, val, P), st, "numpy (lookups read during construction)", case, problems)
        # ---- element-by-element stepping through the per-element API (links are stepped BEFORE the origins), twice
        if full and not plan.get("light"):
            from ..harness import np_manual_steps
            for vlabel, val in valgen.vectors(spec, 0):
                st.inc("executions", 2)
                other = valgen.base_vector(spec, 1 if vlabel == "base0" else 0)
                case = {"spec": spec.describe(), "config": label, "P": P, "val": {f"{k[0]}.{k[1]}": v for k, v in val.items()},
                        "engine": "numpy", "manual": True}
                try:
                    nxt, _ = np_manual_steps(spec, [other, val], P)
                except Exception as e:  # noqa: BLE001
                    problems.append((f"{PROP}/exception/{exc_site(e)}/{type(e).__name__}", f"numpy (element-by-element "
                                     f"stepping): {exc_text(e)}", case))
                    break
                compare(spec, nxt, refmodel.step(spec, val, P), st, "numpy (element-by-element stepping, second step)", case, problems)
        # ---- the same network reached by editing a different, already stepped network in place
        if full and not plan.get("light"):
            for (vlabel, val), emode in (list(zip(list(valgen.vectors(spec, 0)) * 2, ("links", "attachments", "replace", "params")))
                                            + [(list(valgen.vectors(spec, 0))[0], "params")]):
                st.inc("executions", 2)
                case = {"spec": spec.describe(), "config": label, "P": P, "val": {f"{k[0]}.{k[1]}": v for k, v in val.items()},
                        "engine": "numpy", "edited": emode}
                try:
                    eng_ = env.numpy_engine(np.float64(27.5))  # the SAME engine object before and after the edit
                    nxt, built, raw = np_step(spec, val, P, built=build_edited(spec, P, emode, engine=eng_), engine=eng_)
                except Exception as e:  # noqa: BLE001
                    problems.append((f"{PROP}/exception/{exc_site(e)}/{type(e).__name__}", f"numpy (network edited in place after a "
                                     f"step): {exc_text(e)}", case))
                    break
                compare(spec, nxt, refmodel.step(spec, val, P), st, "numpy (network edited in place after a step)", case, problems)
        # ---- the caller supplies only PART of the initial conditions; the engine creates the rest (a constant fill)
        if full and plan.get("partial"):
            from ..harness import filled, supply_modes
            FILL = 27.5
            for mlabel, supply in supply_modes(spec):
                for vlabel, val in valgen.vectors(spec, 0):
                    st.inc("executions", 2)
                    st.inc("partial_condition_steps")
                    eff = filled(spec, val, supply, FILL)
                    case = {"spec": spec.describe(), "config": label, "P": P, "val": {f"{k[0]}.{k[1]}": v for k, v in val.items()},
                            "engine": "numpy", "supplied": sorted(f"{k}.{v}" for k, v in supply), "fill": FILL}
                    try:
                        # the same objects are first stepped from the OTHER base vector with everything supplied: what the
                        # engine creates now must replace whatever the elements held before
                        eng_ = env.numpy_engine(np.float64(FILL))
                        b_ = build(spec)
                        np_step(spec, valgen.base_vector(spec, 1 if vlabel == "base0" else 0), P, built=b_, engine=eng_)
                        nxt, built, raw = np_step(spec, val, P, supply=supply, engine=eng_, built=b_)
                    except Exception as e:  # noqa: BLE001
                        problems.append((f"{PROP}/exception/{exc_site(e)}/{type(e).__name__}", f"numpy (initial conditions "
                                         f"{mlabel}): {exc_text(e)}", case))
                        break
                    compare(spec, nxt, refmodel.step(spec, eff, P), st, f"numpy (initial conditions {mlabel}, rest filled with {FILL})",
                            case, problems)
        # ---- whole-number states given as caller arrays of INTEGER dtype (0-d and length-1 scalars), twice on the same objects
        if full and plan.get("partial"):
            for vlabel, val in valgen.vectors(spec, 0):
                vi = {k: [float(round(x)) if abs(x) != float("inf") else x for x in v] for k, v in val.items()}
                ref_ = refmodel.step(spec, vi, P)
                for shape in ("1d", "0d"):
                    st.inc("executions", 2)
                    case = {"spec": spec.describe(), "config": label, "P": P, "val": {f"{k[0]}.{k[1]}": v for k, v in vi.items()},
                            "engine": "numpy", "integer": shape}
                    try:
                        b_ = build(spec)
                        np_step(spec, vi, P, built=b_, integer=True, scalar_shape=shape)
                        nxt = np_step(spec, vi, P, built=b_, integer=True, scalar_shape=shape)[0]
                    except Exception as e:  # noqa: BLE001
                        problems.append((f"{PROP}/exception/{exc_site(e)}/{type(e).__name__}", f"numpy (integer caller arrays): "
                                         f"{exc_text(e)}", case))
                        break
                    compare(spec, nxt, ref_, st, f"numpy (integer caller arrays, {shape} scalars, second step)", case, problems)
        # ---- every whole-number parameter (link, ramp, model) given as a Python int, integer caller arrays too
        if full and plan.get("partial"):
            from ..spec import integer_typed
            sp_i, ov_i, P_i = integer_typed(spec, P)
            for vlabel, val in valgen.vectors(sp_i, 0):
                vi = {k: [float(round(x)) if abs(x) != float("inf") else x for x in v] for k, v in val.items()}
                st.inc("executions", 2)
                case = {"spec": sp_i.describe(), "config": label, "P": P, "val": {f"{k[0]}.{k[1]}": v for k, v in vi.items()},
                        "engine": "numpy", "int_params": True}
                try:
                    nxt = np_step(sp_i, vi, P_i, built=build(sp_i, override=ov_i), integer=True)[0]
                    F_, b_, _ = cs_compile(sp_i, "SX", P_i, compact=0, override=ov_i)
                    nxt2 = Compiled(F_, b_).eval_many([vi])[0]
                except Exception as e:  # noqa: BLE001
                    problems.append((f"{PROP}/exception/{exc_site(e)}/{type(e).__name__}", f"integer-typed parameters: {exc_text(e)}", case))
                    break
                ref_ = refmodel.step(sp_i, vi, {k: float(v) for k, v in P_i.items()})
                compare(sp_i, nxt, ref_, st, "numpy (integer-typed parameters and arrays)", case, problems)
                compare(sp_i, nxt2, ref_, st, "SX (integer-typed parameters)", dict(case, engine="SX"), problems)
        # ---- spare keyword arguments to Network.step that no law of this network takes by that name (a caller splatting one
        # dictionary of constants, as the repository's own tests do): the step is unchanged
        if full and plan.get("partial"):
            from .c05 import SPARE
            spare = {k_: v_ for k_, v_ in SPARE.items() if k_ not in P and k_ not in ("T", "tau", "eta", "kappa", "delta", "phi")}
            for vlabel, val in valgen.vectors(spec, 0):
                st.inc("executions")
                case = {"spec": spec.describe(), "config": label, "P": P, "val": {f"{k[0]}.{k[1]}": v for k, v in val.items()},
                        "engine": "numpy", "spare_keywords": True}
                try:
                    nxt = np_step(spec, val, dict(P, **spare))[0]
                except Exception as e:  # noqa: BLE001
                    problems.append((f"{PROP}/exception/{exc_site(e)}/{type(e).__name__}", f"numpy (spare keyword arguments to step): "
                                     f"{exc_text(e)}", case))
                    break
                compare(spec, nxt, refmodel.step(spec, val, P), st, f"numpy (spare keyword arguments {sorted(spare)} to step)", case, problems)
        # ---- every element an instance of a user-defined subclass of its library class (NumPy and compiled SX)
        if full and plan.get("partial"):
            for vlabel, val in valgen.vectors(spec, 0):
                st.inc("executions", 2)
                case = {"spec": spec.describe(), "config": label, "P": P, "val": {f"{k[0]}.{k[1]}": v for k, v in val.items()},
                        "engine": "numpy", "subclass": True}
                try:
                    nxt = np_step(spec, val, P, built=build(spec, subclass=True))[0]
                    F_, b_, _ = cs_compile(spec, "SX", P, compact=0, built=build(spec, subclass=True))
                    nxt2 = Compiled(F_, b_).eval_many([val])[0]
                except Exception as e:  # noqa: BLE001
                    problems.append((f"{PROP}/exception/{exc_site(e)}/{type(e).__name__}", f"elements of user-defined subclasses: "
                                     f"{exc_text(e)}", case))
                    break
                ref_ = refmodel.step(spec, val, P)
                compare(spec, nxt, ref_, st, "numpy (elements of user-defined subclasses)", case, problems)
                compare(spec, nxt2, ref_, st, "SX (elements of user-defined subclasses)", dict(case, engine="SX"), problems)
        # ---- compiled CasADi function -------------------------------------------------
        for sym in plan["cs_sym"]:
            st.inc("transitions", 2)
            try:
                F, built, eng = cs_compile(spec, sym, P, compact=0)
                comp = Compiled(F, built)
            except Exception as e:  # noqa: BLE001
                problems.append((f"{PROP}/exception/{exc_site(e)}/{type(e).__name__}", f"{sym}: {exc_text(e)}",
                                 {"spec": spec.describe(), "config": label, "P": P, "engine": sym}))
                continue
            cvecs = list(valgen.vectors(spec, plan["cs_d"] if full else 0))
            for k0 in range(0, len(cvecs), 4096):
                chunk = cvecs[k0:k0 + 4096]
                try:
                    outs = comp.eval_many([v for _, v in chunk])
                except Exception as e:  # noqa: BLE001
                    problems.append((f"{PROP}/exception/{exc_site(e)}/{type(e).__name__}", f"{sym} eval: {exc_text(e)}",
                                     {"spec": spec.describe(), "config": label, "P": P, "engine": sym}))
                    break
                st.inc("executions", len(chunk))
                for (vlabel, val), o in zip(chunk, outs):
                    ref = refmodel.step(spec, val, P)
                    for b in ref.branches:
                        st.add_to("branches", b)
                    case = {"spec": spec.describe(), "config": label, "P": P,
                            "val": {f"{k[0]}.{k[1]}": v for k, v in val.items()}, "engine": sym}
                    compare(spec, o, ref, st, sym, case, problems)
            # local full products (thorough): every combination of alphabet values inside one cone
            if plan.get("products") and full:
                A = refmodel.allowed_dependencies(spec, "delta" in P, "phi" in P)
                done = set()
                for ci, (outc, cone) in enumerate(sorted(A.items())):
                    cone = tuple(sorted(cone))[:plan["products"]]
                    if cone in done:
                        continue
                    done.add(cone)
                    if plan.get("cone_slice") and ci % plan["cone_slice"][1] != plan["cone_slice"][0]:
                        continue
                    pv = list(valgen.local_products(spec, cone, 0))
                    st.inc("product_cones")
                    for k0 in range(0, len(pv), 8192):
                        chunk = pv[k0:k0 + 8192]
                        outs = comp.eval_many([v for _, v in chunk])
                        st.inc("executions", len(chunk))
                        for (vlabel, val), o in zip(chunk, outs):
                            ref = refmodel.step(spec, val, P)
                            case = {"spec": spec.describe(), "config": label, "P": P,
                                    "val": {f"{k[0]}.{k[1]}": v for k, v in val.items()}, "engine": sym}
                            compare(spec, o, ref, st, sym, case, problems)
    return problems


def worker(item):
    plan, specs = item
    st = Stats()
    for label, spec in specs:
        st.inc("states")
        st.add_to("shapes", (spec.n, tuple((l.u, l.v) for l in spec.links)))
        problems = check_spec(spec, label, st, plan)
        st.outcome((spec.n, len(spec.links), len(problems) == 0))
        if len(st.samples) < 1 and len(spec.links) >= 3 and len(spec.origins) >= 2:
            val = valgen.base_vector(spec, 0)
            st.sample({"config": label, "spec": spec.describe(), "P": MODEL_PARAMS[0],
                       "val": {f"{k[0]}.{k[1]}": v for k, v in val.items()}})
        for sig, msg, case in problems:
            st.violation(sig, f"{spec.short()}: {msg}", case)
    return st


def plans(tier, seed):
    pal = seed % 3
    if tier == "quick":
        jobs = [({"np_d": 1, "cs_d": 1, "psets": [0, 1], "cs_sym": ["SX"]},
                 [(lab, s) for _, lab, s in all_specs(3, 3, 1, pal)] + [(f"harness:{k}", s) for k, s in harness_specs(pal).items()]),
                ({"np_d": -1, "cs_d": -1, "psets": [0], "cs_sym": [], "partial": True, "light": True},
                 [(lab, s) for _, lab, s in all_specs(3, 3, 0, pal)] + [(f"harness:{k}", s) for k, s in harness_specs(pal).items()])]
        bounds = {"shapes": "(n,m)<=(3,3) + the harness list (incl. 12-segment links, ramps at merge nodes)", "config_deviation": 1, "numpy_value_deviation": 1, "casadi_value_deviation": 1,
                  "palette": pal, "param_sets": [0, 1]}
    else:
        a = [(lab, s) for _, lab, s in all_specs(3, 4, 1, pal)]
        a2 = [(lab, s) for _, lab, s in all_specs(3, 3, 2, pal)]
        b = [(lab, s) for _, lab, s in all_specs(4, 4, 1, pal) if s.n == 4]
        b2 = [(lab, s) for _, lab, s in all_specs(4, 5, 0, pal) if s.n == 4 and len(s.links) == 5]
        c = [(lab, s) for _, lab, s in all_specs(3, 3, 0, (pal + 1) % 3)]
        h = [(f"harness:{k}", s) for k, s in harness_specs(pal).items()]
        jobs = [
            ({"np_d": 1, "cs_d": 1, "psets": [0, 1, 2, 3], "cs_sym": ["SX"]}, a),
            ({"np_d": 1, "cs_d": 0, "psets": [0], "cs_sym": ["SX"]}, a2),
            ({"np_d": 1, "cs_d": 1, "psets": [0], "cs_sym": ["SX"]}, b),
            ({"np_d": 0, "cs_d": 1, "psets": [1], "cs_sym": ["SX"]}, b2),
            ({"np_d": 0, "cs_d": 2, "psets": [0, 1], "cs_sym": ["SX", "MX"]}, c),
            ({"np_d": 1, "cs_d": 2, "psets": [0, 1], "cs_sym": ["SX"], "products": 7}, h),
            ({"np_d": -1, "cs_d": -1, "psets": [0], "cs_sym": [], "partial": True, "light": True}, a + h),
        ]
        bounds = {"shapes": "(3,4) c<=1 with 4 parameter sets; (3,3) c<=2; 4-node shapes (4,4) c<=1 and (4,5) base+uniform; "
                            "(3,3) base+uniform with pair excursions on SX and MX (second palette); harness list with local "
                            "full products over cones of <= 7 scalars",
                  "palette": pal, "param_sets": [0, 1, 2, 3]}
    return jobs, bounds


def explore(tier, seed, nproc):
    jobs, bounds = plans(tier, seed)
    st = Stats()
    nets = 0
    for plan, specs in jobs:
        nets += len(specs)
        if plan.get("products"):
            # few networks, heavy work per cone: shard on (network, cone slice)
            K = 16
            shards = [(dict(plan, cone_slice=(k, K), np_d=plan["np_d"] if k == 0 else -1,
                            cs_d=plan["cs_d"] if k == 0 else -1), [x]) for x in specs for k in range(K)]
        else:
            shards = [(plan, sh) for sh in shards_of(specs, nproc * 8)]
        st.merge(run_shards(worker, shards, nproc))
    cov = {
        "bounds": bounds,
        "networks": nets,
        "branches_taken": sorted(map(list, st.sets.get("branches", set()))),
        "rule": "a state is one network program; executions are real steps (NumPy) or real evaluations of the compiled "
                "function (CasADi), each compared component-wise with the reference METANET model",
    }
    all_branches = {("main.vlim", "ctrl"), ("main.vlim", "first"), ("main.qlim", "guard"), ("main.qlim", "zero-speed"),
                    ("main.qlim", "speed"), ("main.qlim", "capacity"), ("main.q", "demand"), ("main.q", "limit"),
                    ("ramp_out.space", "1"), ("ramp_out.space", "space"), ("ramp_out.q", "demand"), ("ramp_out.q", "cap"),
                    ("ramp_in.space", "r"), ("ramp_in.space", "space"), ("ramp_in.q", "demand"), ("ramp_in.q", "cap"),
                    ("simp_lim.q", "des"), ("simp_lim.q", "demand"), ("simp_lim.q", "cap"),
                    ("dest.min", "rho"), ("dest.min", "crit"), ("dest.max", "scenario"), ("dest.max", "link"),
                    ("vsl.min", "limit"), ("vsl.min", "Veq"), ("merging", "applied"), ("lanedrop", "drop"),
                    ("lanedrop", "gain")}
    cov["branches_not_reached"] = sorted(map(list, all_branches - st.sets.get("branches", set())))
    assumptions = [
        "values outside the alphabets are not covered; inside a branch region every law is one algebraic expression",
        "reference model exclusions (counted in counters.skipped:*): the model's own 0/0, the documented log-ratio guard "
        "of the mainstream origin (0 < v_lim/v_free < 0.05), lane gains (not defined by the thesis)",
        "networks with more than 4 nodes / 5 links are not built",
        "comparison tolerance 1e-9 relative",
    ]
    return st, cov, assumptions


def replay(case):
    spec = NetSpec.from_json(case["spec"])
    P = case["P"]
    lines = [f"network {spec.short()} ({case.get('config')}) engine={case.get('engine')} P={P}"]
    if "val" not in case:
        st = Stats()
        problems = check_spec(spec, "?", st, {"np_d": 0, "cs_d": 0, "psets": [0], "cs_sym": ["SX"]})
        for sig, msg, c in problems:
            lines.append(f"  {sig}: {msg}")
        return lines, bool(problems)
    val = {tuple(k.split(".")): [float(x) if x not in ("inf",) else float("inf") for x in v] for k, v in case["val"].items()}
    st = Stats()
    problems = []
    ref = refmodel.step(spec, val, P)
    if case.get("supplied") is not None:
        from ..harness import filled
        supply = frozenset(tuple(x.split(".")) for x in case["supplied"])
        eng_ = env.numpy_engine(np.float64(case["fill"]))
        b_ = build(spec)
        np_step(spec, valgen.base_vector(spec, 1), P, built=b_, engine=eng_)
        nxt = np_step(spec, val, P, supply=supply, engine=eng_, built=b_)[0]
        ref = refmodel.step(spec, filled(spec, val, supply, case["fill"]), P)
    elif case.get("spare_keywords"):
        from .c05 import SPARE
        spare = {k_: v_ for k_, v_ in SPARE.items() if k_ not in P and k_ not in ("T", "tau", "eta", "kappa", "delta", "phi")}
        nxt = np_step(spec, val, dict(P, **spare))[0]
    elif case.get("int_params"):
        from ..spec import integer_typed
        sp_i, ov_i, P_i = integer_typed(spec, P)
        ref = refmodel.step(sp_i, val, {k: float(v) for k, v in P_i.items()})
        if case.get("engine") == "SX":
            F_, b_, _ = cs_compile(sp_i, "SX", P_i, compact=0, override=ov_i)
            nxt = Compiled(F_, b_).eval_many([val])[0]
        else:
            nxt = np_step(sp_i, val, P_i, built=build(sp_i, override=ov_i), integer=True)[0]
        spec = sp_i
    elif case.get("integer"):
        b_ = build(spec)
        np_step(spec, val, P, built=b_, integer=True, scalar_shape=case["integer"])
        nxt = np_step(spec, val, P, built=b_, integer=True, scalar_shape=case["integer"])[0]
    elif case.get("subclass"):
        if case.get("engine") == "SX":
            F_, b_, _ = cs_compile(spec, "SX", P, compact=0, built=build(spec, subclass=True))
            nxt = Compiled(F_, b_).eval_many([val])[0]
        else:
            nxt = np_step(spec, val, P, built=build(spec, subclass=True))[0]
    elif case.get("manual"):
        from ..harness import np_manual_steps
        other = valgen.base_vector(spec, 1)
        nxt, _ = np_manual_steps(spec, [other, val], P)
    elif case.get("engine", "numpy") == "numpy":
        nxt, built, raw = np_step(spec, val, P, built=(build_edited(spec, P, case["edited"] if isinstance(case.get("edited"), str) else "links") if case.get("edited")
                                                        else build(spec, touch=bool(case.get("touch")))))
    else:
        F, built, eng = cs_compile(spec, case["engine"], P, compact=0)
        nxt = Compiled(F, built).eval_many([val])[0]
    compare(spec, nxt, ref, st, case.get("engine", "numpy"), case, problems)
    lines.append(f"inputs: {case['val']}")
    for sig, msg, c in problems:
        lines.append(f"  {sig}: {msg}")
    return lines, bool(problems)
