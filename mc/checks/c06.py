"""C06 — validation accepts a network exactly when the nine documented conditions hold.

Space: ALL labelled graphs (valid or not) over n nodes, every subset of the n*n ordered
node pairs (self-loops included) up to m links, every way of sharing link objects among
the edges (restricted-growth strings), every per-node origin in {none, new of each kind,
the same object as an earlier node} and destination likewise.  Each graph is built on the
real `Network` through three different API histories (the third interleaves is_valid() calls with the
construction and uses add_path) and `is_valid` is compared with the
independent nine-condition predicate of `graphmodel`.
"""
from __future__ import annotations

import itertools

from .. import env
from ..core import Stats, exc_site, exc_text
from ..graphmodel import Universe, Snap, violated_conditions, snapshot, RAMP_KINDS
from ..parallel import run_shards, shards_of

import sym_metanet as M
from sym_metanet.errors import InvalidNetworkError

NODES = "abcd"


def tiers(tier):
    # (n, max_links, origin kinds, dest kinds, sharing allowed)
    if tier == "quick":
        return [
            (0, 0, ("ideal", "metered"), ("free",), True),
            (1, 1, ("ideal", "main", "metered", "simplified"), ("free", "congested"), True),
            (2, 3, ("ideal", "main", "metered", "simplified"), ("free", "congested"), True),
            (3, 3, ("ideal", "metered"), ("free",), True),
        ]
    return [
        (0, 0, ("ideal", "metered"), ("free",), True),
        (1, 1, ("ideal", "main", "metered", "simplified"), ("free", "congested"), True),
        (2, 4, ("ideal", "main", "metered", "simplified"), ("free", "congested"), True),
        (3, 4, ("ideal", "metered"), ("free",), True),
        (3, 3, ("ideal", "main", "metered", "simplified"), ("free", "congested"), True),
        (4, 4, ("ideal", "metered"), ("free",), False),
    ]


def rgs(m):
    """All restricted growth strings of length m (set partitions = sharing patterns)."""
    def rec(prefix, mx):
        if len(prefix) == m:
            yield tuple(prefix)
            return
        for x in range(mx + 2):
            yield from rec(prefix + [x], max(mx, x))
    if m == 0:
        yield ()
    else:
        yield from rec([0], 0)


def attach_options(n, kinds, prefix, sharing):
    """All per-node attachment assignments: tuple of labels/None per node."""
    def rec(i, cur):
        if i == n:
            yield tuple(cur)
            return
        yield from rec(i + 1, cur + [None])
        for k in kinds:
            yield from rec(i + 1, cur + [f"{prefix}{i}{k}"])
        if sharing:
            for lab in sorted({c for c in cur if c is not None}):
                yield from rec(i + 1, cur + [lab])
    yield from rec(0, [])


def universe_for(n, okinds, dkinds, same_names=False):
    """same_names: every element object is called 'x' (names are free constructor arguments; validity is about
    objects, so the verdict must not depend on them)."""
    spec = {NODES[i]: "node" for i in range(n)}
    for j in range(5):
        spec[f"L{j}"] = "link"
    for i in range(n):
        for k in okinds:
            spec[f"O{i}{k}"] = ("origin", k)
        for k in dkinds:
            spec[f"D{i}{k}"] = ("dest", k)
    namer = (lambda lab: "x") if same_names is True else ((lambda lab: "$" + lab[0] + "_{" + lab[1:] + "}$") if same_names == "braces" else None)
    return Universe(spec, namer=namer, subclass=(same_names == "sub"))


def build(U, n, edges, links, origins, dests, history):
    """Two different construction histories for the same labelled graph."""
    o = U.obj
    net = M.Network(name="net")
    nodes = [o[NODES[i]] for i in range(n)]
    if history == 1:
        net.add_nodes(nodes)
        for (u, v), l in zip(edges, links):
            net.add_link(nodes[u], o[f"L{l}"], nodes[v])
        for i in range(n):
            if origins[i] is not None:
                net.add_origin(o[origins[i]], nodes[i])
            if dests[i] is not None:
                net.add_destination(o[dests[i]], nodes[i])
    elif history == 3:
        # validate - mutate - validate: is_valid() after every construction call (its reads memoise lookups),
        # links and attachments added through add_path wherever a path call can express them
        net.is_valid()
        done_o, done_d = set(), set()
        for (u, v), l in zip(edges, links):
            wo = origins[u] is not None and u not in done_o
            wd = dests[v] is not None and v not in done_d
            net.add_path((nodes[u], o[f"L{l}"], nodes[v]), origin=o[origins[u]] if wo else None,
                         destination=o[dests[v]] if wd else None)
            if wo:
                done_o.add(u)
            if wd:
                done_d.add(v)
            net.is_valid()
        for i in range(n):
            if origins[i] is not None and i not in done_o:
                net.add_origin(o[origins[i]], nodes[i])
                net.is_valid()
            if dests[i] is not None and i not in done_d:
                net.add_destination(o[dests[i]], nodes[i])
                net.is_valid()
            if origins[i] is None and dests[i] is None:
                net.add_node(nodes[i])
    else:
        for i in reversed(range(n)):
            if dests[i] is not None:
                net.add_destination(o[dests[i]], nodes[i])
            if origins[i] is not None:
                net.add_origin(o[origins[i]], nodes[i])
            if origins[i] is None and dests[i] is None:
                net.add_node(nodes[i])
        # bulk, in reverse order; duplicates of an ordered pair cannot occur
        net.add_links([(nodes[u], o[f"L{l}"], nodes[v]) for (u, v), l in reversed(list(zip(edges, links)))])
    return net


def model_snap(n, edges, links, origins, dests) -> Snap:
    return Snap({NODES[i]: (origins[i], dests[i]) for i in range(n)},
                {(NODES[u], NODES[v]): f"L{l}" for (u, v), l in zip(edges, links)})


def check_one(U, n, edges, links, origins, dests, st: Stats, record=True):
    """Runs both histories; returns list of (signature, message)."""
    exp = model_snap(n, edges, links, origins, dests)
    bad = violated_conditions(exp, U.is_ramp)
    valid = not bad
    problems = []
    for history in (1, 2, 3):
        st.inc("transitions", n + len(edges) + 2)
        try:
            net = build(U, n, edges, links, origins, dests, history)
            got = snapshot(net, U)
        except Exception as e:  # noqa: BLE001
            problems.append((f"C06/build-exception/{exc_site(e)}", f"history {history}: {exc_text(e)}", history))
            continue
        if got != exp:
            problems.append(("C06/build-mismatch", f"history {history}: graph {got.to_json()} != described {exp.to_json()}", history))
            continue
        try:
            ok, msgs = net.is_valid()
        except Exception as e:  # noqa: BLE001
            problems.append((f"C06/is_valid-exception/{exc_site(e)}", f"history {history}: is_valid() raised {exc_text(e)}", history))
            continue
        st.inc("executions")
        cond = "+".join(map(str, bad))
        if bool(ok) != valid:
            if valid:
                problems.append(("C06/rejects-valid", f"history {history}: valid network rejected: {msgs}", history))
            else:
                problems.append((f"C06/accepts-invalid/cond{cond}", f"history {history}: network violating condition(s) {cond} accepted", history))
            continue
        if (len(msgs) > 0) != (not valid):
            problems.append(("C06/messages", f"history {history}: verdict {ok} with messages {msgs}", history))
        try:
            r = net.is_valid(True) if history == 2 else net.is_valid(raises=True)  # positional form too
            raised = None
        except InvalidNetworkError as e:
            raised = e
        except Exception as e:  # noqa: BLE001
            problems.append((f"C06/raises-exception/{exc_site(e)}", f"history {history}: is_valid(raises=True) raised {exc_text(e)}", history))
            continue
        if valid:
            if raised is not None:
                problems.append(("C06/raises-on-valid", f"history {history}: raised {raised} on a valid network", history))
            elif not (r[0] is True and list(r[1]) == []):
                problems.append(("C06/raises-return", f"history {history}: returned {r} on a valid network", history))
        elif raised is None:
            problems.append((f"C06/no-raise-on-invalid/cond{cond}", f"history {history}: raises=True returned {r} on a network violating {cond}", history))
        if record:
            st.outcome((valid, tuple(bad)))
    return problems, valid, bad


def shard_worker(item):
    st = Stats()
    for (n, edges, okinds, dkinds, sharing, same_names) in item:
        U = universe_for(n, okinds, dkinds, same_names)
        m = len(edges)
        link_patterns = list(rgs(m)) if sharing else [tuple(range(m))]
        origin_opts = list(attach_options(n, okinds, "O", sharing))
        dest_opts = list(attach_options(n, dkinds, "D", sharing))
        for links in link_patterns:
            for origins in origin_opts:
                # ... and, when objects may be shared, an ORIGIN object attached once more as the destination of some node
                cross = []
                if sharing:
                    for o_ in sorted({x for x in origins if x is not None}):
                        for i_ in range(n):
                            cross.append(tuple(o_ if j_ == i_ else None for j_ in range(n)))
                for dests in dest_opts + cross:
                    st.inc("states")
                    problems, valid, bad = check_one(U, n, edges, links, origins, dests, st)
                    st.inc("valid" if valid else "invalid")
                    if len(st.samples) < 1 and valid and n >= 2:
                        st.sample({"n": n, "edges": edges, "links": links, "origins": origins, "dests": dests,
                                   "model_valid": valid, "violated": bad})
                    for sig, msg, history in problems:
                        st.violation(sig, msg, {"n": n, "edges": [list(e) for e in edges], "links": list(links),
                                                "origins": list(origins), "dests": list(dests),
                                                "okinds": list(okinds), "dkinds": list(dkinds), "history": history,
                                                "same_names": same_names})
    return st


def explore(tier, seed, nproc):
    items = []
    bounds = []
    seen = set()
    for (n, mmax, okinds, dkinds, sharing) in tiers(tier):
        pairs = [(u, v) for u in range(n) for v in range(n)]
        cnt = 0
        for m in range(0, mmax + 1):
            for edges in itertools.combinations(pairs, m):
                key = (n, edges, okinds, dkinds, sharing, False)
                # a later tier line with a superset of kinds would repeat graphs of an earlier one;
                # repeats are harmless (counted again) but we skip exact duplicates
                if key in seen:
                    continue
                seen.add(key)
                items.append(key)
                cnt += 1
                # the same graphs once more with every element object carrying the same name (smaller bound)
                if n <= 2 or (n == 3 and m <= 2 and len(okinds) == 2):
                    items.append((n, edges, okinds, dkinds, sharing, True))
                    cnt += 1
                    # ... and with every element an instance of a user-defined subclass of its class
                    items.append((n, edges, okinds, dkinds, sharing, "sub"))
                    cnt += 1
                    # ... and with names containing braces and dollar signs (LaTeX-style labels)
                    if n <= 2:
                        items.append((n, edges, okinds, dkinds, sharing, "braces"))
                        cnt += 1
        bounds.append({"nodes": n, "max_links": mmax, "origin_kinds": okinds, "dest_kinds": dkinds,
                       "object_sharing": sharing, "edge_sets": cnt})
    # palettes: the seed rotates the order in which shards are dealt (coverage is identical)
    rot = seed % max(1, len(items))
    items = items[rot:] + items[:rot]
    shards = shards_of(items, nproc * 8)
    st = run_shards(shard_worker, shards, nproc)
    cov = {
        "bounds": bounds,
        "rule": "every labelled graph within the bounds, each built through 2 API histories; a state is one "
                "labelled graph with attachments; transitions are construction calls; executions are is_valid runs",
        "valid_graphs": st.c.get("valid", 0),
        "invalid_graphs": st.c.get("invalid", 0),
    }
    assumptions = [
        "graphs with more nodes/links than the stated bounds are not enumerated",
        "the 'randomly beyond the bound' clause of the property is not implemented (sampling is another family)",
        "element objects are reused between graphs of one shard (construction does not mutate them)",
        "the smaller graphs are enumerated three times: distinct names, every element named 'x', and every element an "
        "instance of a trivial user-defined subclass of its library class",
    ]
    return st, cov, assumptions


def replay(case):
    U = universe_for(case["n"], tuple(case["okinds"]), tuple(case["dkinds"]), case.get("same_names") or False)
    st = Stats()
    edges = tuple(tuple(e) for e in case["edges"])
    problems, valid, bad = check_one(U, case["n"], edges, tuple(case["links"]), tuple(case["origins"]),
                                     tuple(case["dests"]), st, record=False)
    lines = [f"graph: nodes={case['n']} edges={edges} links={case['links']} origins={case['origins']} dests={case['dests']}",
             f"model verdict: {'valid' if valid else 'invalid, violates ' + str(bad)}"]
    for sig, msg, h in problems:
        lines.append(f"  {sig}: {msg}")
    return lines, bool(problems)
