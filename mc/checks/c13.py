"""C13 — the selected engine is the default; an explicit engine is always honoured.

Space H: all histories up to a length over
   use('numpy'), use('casadi'), use('bogus'), use(<arbitrary object>),
   use(spy NumPy), use(spy SX), use(spy MX), get_current_engine(),
   step() without engine, step(engine=spy NumPy | spy SX | spy MX)
on harness networks covering all element kinds, merges and bifurcations.  The spies are
EngineBase subclasses delegating to real engines and counting every primitive/var/vcat/max call.
Model: one variable `current`.  Oracle: see `check_op`.
"""
from __future__ import annotations

import itertools

import casadi as cs
import numpy as np

from .. import env
from ..core import Stats, exc_site, exc_text
from ..netgen import MODEL_PARAMS, harness_specs
from ..parallel import run_shards
from ..spec import NetSpec, build
from ..spy import SpyEngine

import sym_metanet
from sym_metanet import engines
from sym_metanet.errors import EngineNotFoundError

P = MODEL_PARAMS[0]
SPIES = ("spyNP", "spySX", "spyMX")
OPS = ([("use_name", "numpy"), ("use_name", "casadi"), ("use_name", "bogus"), ("use_obj",)]
       + [("use_spy", s) for s in SPIES] + [("get",), ("step", None)] + [("step", s) for s in SPIES]
       # a step that is bound to fail (the sampling time is missing): the selection must survive the exception
       + [("stepfail", None), ("stepfail", "spyNP"), ("stepfail", "spyMX")]
       # an explicit engine together with PARTIAL initial conditions (only the densities of the first link are given)
       + [("step_partial", "spyNP"), ("step_partial", "spySX")]
       # selecting a fresh, default-configured instance of the real NumPy engine (equal in configuration to the one
       # use("numpy") creates, but another object)
       + [("use_fresh_numpy",)]
       # a step with an explicit engine on elements of user-defined subclasses that record which engine every one of
       # their methods is handed
       + [("step_probe", "spyNP"), ("step_probe", "spyMX")]
       # an explicit engine object that is FALSY (a user-defined engine with __len__ == 0 / __bool__ False) is an engine
       # all the same; and an explicit NumPy engine keeps its OWN variable fill when another NumPy engine with another
       # fill was created (and selected) after it
       + [("step", "spyNP0"), ("step_two_fills",)]
       # the caller edits the dictionary get_available_engines() returned (removes 'numpy', adds an alias 'np'): the registry
       # itself is untouched - 'numpy' can still be selected, 'np' is still unknown
       + [("avail_mutate",), ("use_name", "np")])

KIND_TYPES = {"numpy": (np.ndarray, np.floating, float), "SX": (cs.SX,), "MX": (cs.MX,)}


def kind_of_engine(e):
    if isinstance(e, SpyEngine):
        return kind_of_engine(e.real)
    mod = type(e).__module__
    if mod.endswith("engines.numpy"):
        return "numpy"
    if mod.endswith("engines.casadi"):
        return e.sym_type.__name__
    return "?"


def value_types_ok(built, kind):
    ok_types = KIND_TYPES[kind]
    for key, el in built.obj.items():
        for group in ("states", "next_states", "actions", "disturbances"):
            d = getattr(el, group, None)
            if d:
                for name, v in d.items():
                    if not isinstance(v, ok_types):
                        return f"{group}[{name}] of {key} is a {type(v).__name__}, expected a {kind} value"
    return None


_REFCALLS = {}


def reference_calls(spec, label):
    """Calls a spy receives for one step when it is both the selected and the explicit engine."""
    key = (spec, label)
    if key not in _REFCALLS:
        saved = sym_metanet.engine
        try:
            real = {"spyNP": lambda: env.numpy_engine(np.float64(30.0)), "spySX": lambda: env.casadi_engine("SX"),
                    "spyMX": lambda: env.casadi_engine("MX"), "spyNP0": lambda: env.numpy_engine(np.float64(30.0))}[label]()
            spy = SpyEngine(real, label)
            sym_metanet.engine = spy
            build(spec).net.step(engine=spy, **P)
            _REFCALLS[key] = dict(spy.calls)
        finally:
            sym_metanet.engine = saved
    return _REFCALLS[key]


class FalsySpy(SpyEngine):
    def __len__(self):
        return 0

    def __bool__(self):
        return False


def run_history(spec: NetSpec, hist, st: Stats):
    from sym_metanet.engines.casadi import Engine as CE

    problems = []
    saved = sym_metanet.engine
    try:
        initial = CE("SX")
        sym_metanet.engine = initial
        current = initial
        spies = {"spyNP": SpyEngine(env.numpy_engine(np.float64(30.0)), "spyNP"),
                 "spySX": SpyEngine(env.casadi_engine("SX"), "spySX"),
                 "spyMX": SpyEngine(env.casadi_engine("MX"), "spyMX"),
                 "spyNP0": FalsySpy(env.numpy_engine(np.float64(30.0)), "spyNP0")}
        built = build(spec)
        for i, op in enumerate(hist):
            st.inc("transitions")
            for s in spies.values():
                s.reset()
            k = op[0]

            def bad(sig, msg):
                problems.append((f"C13/{sig}", f"operation {i} {op}: {msg}"))

            if k in ("use_name", "use_obj", "use_spy"):
                arg = op[1] if k == "use_name" else (object() if k == "use_obj" else spies[op[1]])
                try:
                    r = engines.use(arg)
                    exc = None
                except Exception as e:  # noqa: BLE001
                    r, exc = None, e
                if k == "use_name" and op[1] in ("numpy", "casadi"):
                    if exc is not None:
                        bad("use/exception", f"raised {exc_text(exc)}")
                        return problems
                    want_mod = f"engines.{op[1]}"
                    if not type(r).__module__.endswith(want_mod):
                        bad("use/wrong-class", f"returned {type(r).__module__}.{type(r).__name__}")
                    if r is not engines.get_current_engine() or r is not sym_metanet.engine:
                        bad("use/not-current", "the returned engine is not the current engine")
                    current = r
                elif k == "use_spy":
                    if exc is not None:
                        bad("use/exception", f"raised {exc_text(exc)}")
                        return problems
                    if r is not arg:
                        bad("use/instance-not-returned", f"returned {r!r}")
                    if engines.get_current_engine() is not arg or sym_metanet.engine is not arg:
                        bad("use/not-current", "the instance is not the current engine")
                    current = arg
                else:
                    if exc is None:
                        bad("use/invalid-accepted", f"accepted, current is now {engines.get_current_engine()!r}")
                        current = engines.get_current_engine()
                    elif k == "use_name" and not isinstance(exc, EngineNotFoundError):
                        bad("use/wrong-error", f"unknown name raised {type(exc).__name__}, not EngineNotFoundError")
                    if engines.get_current_engine() is not current or sym_metanet.engine is not current:
                        bad("use/selection-changed-by-refused-call", f"current engine is now {engines.get_current_engine()!r}")
                        current = engines.get_current_engine()
            elif k == "get":
                if engines.get_current_engine() is not current or sym_metanet.engine is not current:
                    bad("get/wrong", f"get_current_engine() is {engines.get_current_engine()!r}, model says {current!r}")
            elif k == "use_fresh_numpy":
                inst = env.numpy_engine()
                r = engines.use(inst)
                if r is not inst:
                    bad("use/instance-not-returned", f"returned {r!r}")
                if engines.get_current_engine() is not inst or sym_metanet.engine is not inst:
                    bad("use/not-current", "the freshly created NumPy engine instance is not the current engine")
                current = engines.get_current_engine()
            elif k == "step_partial":
                explicit = spies[op[1]]
                L0 = built.obj["L0"]
                N = spec.links[0].N
                given = (np.array([20.0 + i for i in range(N)]) if op[1] == "spyNP" else cs.SX.sym("rho_given", N, 1))
                st.inc("executions")
                try:
                    built.net.step(engine=explicit, init_conditions={L0: {"rho": given}}, **P)
                except Exception as e:  # noqa: BLE001
                    bad(f"step/exception/{exc_site(e)}/{type(e).__name__}", f"partial initial conditions: {exc_text(e)}")
                    return problems
                for name, s in spies.items():
                    if s is not explicit and s.total() != 0:
                        bad(f"step/foreign-engine-called/{'selected' if s is current else 'unrelated'}/{sorted(s.calls)[0]}",
                            f"{name} received calls {dict(s.calls)} although the step must use {explicit!r}")
                ref = reference_calls(spec, explicit.label)
                want_var = ref.get("var", 0) - 1  # one variable was supplied by the caller
                if explicit.calls.get("var", 0) != want_var or any(explicit.calls.get(k_, 0) != v for k_, v in ref.items() if k_ != "var"):
                    bad("step/call-count/partial", f"{explicit.label} received calls {dict(explicit.calls)}, expected {ref} with one "
                        f"`var` less: part of the step was computed elsewhere (current engine is {current!r})")
                msg = value_types_ok(built, kind_of_engine(explicit))
                if msg:
                    bad("step/value-type", msg)
                if engines.get_current_engine() is not current or sym_metanet.engine is not current:
                    bad("step/selection-changed", f"current engine is now {engines.get_current_engine()!r}")
                    current = engines.get_current_engine()
                built = build(spec)
            elif k == "step_probe":
                from ..graphmodel import PROBE_LOG
                explicit = spies[op[1]]
                pb = build(spec, subclass="probe")
                del PROBE_LOG[:]
                st.inc("executions")
                try:
                    pb.net.step(engine=explicit, **P)
                except Exception as e:  # noqa: BLE001
                    bad(f"step/exception/{exc_site(e)}/{type(e).__name__}", f"elements of user-defined subclasses: {exc_text(e)}")
                    return problems
                st.inc("probe_calls", len(PROBE_LOG))
                for cname, mname, eng in PROBE_LOG:
                    if eng is not explicit:
                        bad(f"step/user-element-not-given-the-explicit-engine/{cname}.{mname}",
                            f"{cname}.{mname} of a user-defined subclass was handed engine {eng!r} during a step with the explicit "
                            f"engine {explicit!r} (with None it falls back to the selected engine {current!r})")
                        break
                for name, s in spies.items():
                    if s is not explicit and s.total() != 0:
                        bad(f"step/foreign-engine-called/{'selected' if s is current else 'unrelated'}/{sorted(s.calls)[0]}",
                            f"{name} received calls {dict(s.calls)} although the step must use {explicit!r}")
                if engines.get_current_engine() is not current or sym_metanet.engine is not current:
                    bad("step/selection-changed", f"current engine is now {engines.get_current_engine()!r}")
                    current = engines.get_current_engine()
            elif k == "avail_mutate":
                info = engines.get_available_engines()
                names = sorted(info)
                if names != ["casadi", "numpy"]:
                    bad("available/wrong", f"get_available_engines() lists {names}")
                info.pop("numpy", None)
                info["np"] = info.get("casadi")
                if engines.get_current_engine() is not current or sym_metanet.engine is not current:
                    bad("use/selection-changed-by-refused-call", "editing the returned dictionary changed the current engine")
            elif k == "step_two_fills":
                e1 = env.numpy_engine(2.0)
                e2 = engines.use("numpy", var_type=7.0)  # created later, with another fill, and selected
                current = e2
                if engines.get_current_engine() is not e2 or sym_metanet.engine is not e2:
                    bad("use/not-current", "the engine returned by use('numpy', var_type=7.0) is not the current engine")
                st.inc("executions", 2)
                for eng_, fill in ((e1, 2.0), (None, 7.0)):
                    b_ = build(spec)
                    try:
                        if eng_ is None:
                            b_.net.step(**P)
                        else:
                            b_.net.step(engine=eng_, **P)
                    except Exception as e:  # noqa: BLE001
                        bad(f"step/exception/{exc_site(e)}/{type(e).__name__}", f"two NumPy engines with different fills: {exc_text(e)}")
                        return problems
                    for key, var, n, role in spec.variables():
                        el = b_.obj[key]
                        d = el.states if role == "state" else (el.actions if role == "action" else el.disturbances)
                        arr = np.asarray(d[var], dtype=float)
                        if not np.all(arr == fill):
                            bad("step/engine-configuration-not-honoured", f"{'explicit' if eng_ else 'selected'} NumPy engine with "
                                f"var_type={fill}: {var} of {key} was created as {arr.tolist()}")
                            break
            elif k == "stepfail":
                explicit = spies[op[1]] if op[1] else None
                bad_P = {k_: v for k_, v in P.items() if k_ != "T"}
                try:
                    if explicit is None:
                        built.net.step(**bad_P)
                    else:
                        built.net.step(engine=explicit, **bad_P)
                    raised = False
                except Exception:  # noqa: BLE001
                    raised = True
                if not raised:
                    bad("stepfail/accepted", "a step without the sampling time did not raise")
                if engines.get_current_engine() is not current or sym_metanet.engine is not current:
                    bad("step/selection-changed-by-failed-step", f"after a failing step the current engine is "
                        f"{engines.get_current_engine()!r}, it was {current!r}")
                    current = engines.get_current_engine()
                built = build(spec)  # the failed step may leave the elements half initialised: continue on fresh ones
            elif k == "step":
                explicit = spies[op[1]] if op[1] else None
                st.inc("executions")
                try:
                    if explicit is None:
                        built.net.step(**P)
                    else:
                        built.net.step(engine=explicit, **P)
                except Exception as e:  # noqa: BLE001
                    bad(f"step/exception/{exc_site(e)}/{type(e).__name__}", exc_text(e))
                    return problems
                used = explicit if explicit is not None else current
                if isinstance(used, SpyEngine):
                    ref = reference_calls(spec, used.label)
                    if dict(used.calls) != ref:
                        diff = {k_: (used.calls.get(k_, 0), ref.get(k_, 0)) for k_ in set(ref) | set(used.calls)
                                if used.calls.get(k_, 0) != ref.get(k_, 0)}
                        bad(f"step/call-count/{sorted(diff)[0]}", f"{used.label} received (got, expected) calls {diff}: part of the "
                            f"step was computed elsewhere (current engine is {current!r})")
                for name, s in spies.items():
                    if s is used:
                        if s.total() == 0:
                            bad("step/engine-not-used", f"{name} should have computed the step but received no call")
                    elif s.total() != 0:
                        which = "selected" if s is current else "unrelated"
                        bad(f"step/foreign-engine-called/{which}/{sorted(s.calls)[0]}",
                            f"{name} ({which}) received calls {dict(s.calls)} although the step must use {used!r}")
                msg = value_types_ok(built, kind_of_engine(used))
                if msg:
                    bad("step/value-type", msg)
                if engines.get_current_engine() is not current or sym_metanet.engine is not current:
                    bad("step/selection-changed", f"current engine is now {engines.get_current_engine()!r}")
                    current = engines.get_current_engine()
                st.outcome((kind_of_engine(current), isinstance(current, SpyEngine), op[1]))
            if problems:
                return problems
    finally:
        sym_metanet.engine = saved
    return problems


def worker(item):
    name, spec, firsts, length = item
    st = Stats()
    for first in firsts:
        for rest in itertools.product(OPS, repeat=length - 1):
            hist = (first,) + rest
            st.inc("states")
            problems = run_history(spec, hist, st)
            if len(st.samples) < 1 and length >= 3 and hist[0][0] == "use_spy" and hist[1][0] == "step":
                st.sample({"network": name, "history": hist})
            for sig, msg in problems:
                st.violation(sig, f"{name} history {hist}: {msg}", {"network": name, "history": hist, "spec": spec.describe()})
    return st


def explore(tier, seed, nproc):
    pal = seed % 3
    H = harness_specs(pal)
    nets = [(k, H[k]) for k in ("chain", "merge", "twobytwo", "tri_split")]
    kmax = 3 if tier == "quick" else 4
    items = []
    for name, spec in nets:
        for k in range(1, kmax + 1):
            items += [(name, spec, [f], k) for f in OPS]
    st = run_shards(worker, items, nproc)
    cov = {"networks": [n for n, _ in nets], "operations": len(OPS), "history_length_completed": kmax, "palette": pal,
           "rule": "every history over the operations up to the length; after each operation the one-variable model "
                   "`current` is compared with get_current_engine()/sym_metanet.engine, and for steps the per-engine call "
                   "counters and the types of all element variables are checked"}
    assumptions = ["spies count calls made through engine.nodes/links/origins/destinations, var, vcat, max; a primitive that "
                   "internally calls a sibling static method (controlled_Veq -> Veq) is not seen twice",
                   "probe elements (step_probe): user-defined subclasses overriding every element method that has an `engine` "
                   "parameter, or takes the network and **kwargs; during a step with an explicit engine each of these calls must "
                   "be handed that very engine object (an override that uses the engine it is given would otherwise compute "
                   "with the selected one)"]
    return st, cov, assumptions


def _detuple(x):
    return tuple(_detuple(y) for y in x) if isinstance(x, list) else x


def replay(case):
    spec = NetSpec.from_json(case["spec"])
    st = Stats()
    hist = tuple(_detuple(op) for op in case["history"])
    problems = run_history(spec, hist, st)
    lines = [f"network {case['network']} history:"] + [f"   {op}" for op in hist] + [f"  {s}: {m}" for s, m in problems]
    return lines, bool(problems)
