"""C07 — every network accepted by validation can be stepped and compiled on every engine.

Space N x configurations x V: every valid shape up to isomorphism within (n, m), every
configuration within the deviation bound (all element kinds in all positions, N in 1..3,
VSL sets), each exercised with: NumPy + user arrays (length-1 and 0-d scalars), NumPy + the
engine's own variables, CasADi SX and MX at compactness 0/1/2 with and without extra
outputs, and the positivity options; on boundary value vectors (zeros, maxima).
Oracle: validation accepts; no exception; next.shape == state.shape; outputs finite unless
the reference model itself meets its own 0/0 for that vector.
"""
from __future__ import annotations

import itertools

import numpy as np
import casadi as cs

from .. import env
from ..core import Stats, exc_site, exc_text
from ..harness import OPTS, Compiled, cs_compile, np_step, read_next
from ..layout import Layout
from ..netgen import MODEL_PARAMS, all_specs, harness_specs
from ..parallel import run_shards, shards_of
from ..spec import NetSpec, build, build_edited
from .. import refmodel, valgen

INF = float("inf")


def finite_vectors(spec, d, bases=(0, 1)):
    for label, val in valgen.vectors(spec, d, bases):
        if any(x == INF for lst in val.values() for x in lst):
            continue
        yield label, val
    if d >= 1:
        yield from valgen.extreme_vectors(spec)
        yield from valgen.link_subset_vectors(spec)


def kind_of(spec: NetSpec, key):
    if key.startswith("O"):
        return spec.origin_at(int(key[1:])).kind
    return "link"


def option_sets(tier):
    sets = [{}]
    sets += [{o: True} for o in OPTS]
    sets.append({o: True for o in OPTS})
    return sets


def check_spec(spec: NetSpec, label, st: Stats, tier, palette_seed, light=False):
    problems = []  # (sig, msg, extra)

    def bad(sig, msg, **extra):
        problems.append((sig, msg, extra))

    P0, P1 = MODEL_PARAMS[0], MODEL_PARAMS[1]
    # 1. validation accepts ------------------------------------------------------
    st.inc("transitions")
    try:
        b = build(spec)
        ok, msgs = b.net.is_valid()
        if not ok:
            bad("C07/valid-network-rejected", f"is_valid -> {msgs}", phase="is_valid")
            return problems
    except Exception as e:  # noqa: BLE001
        bad(f"C07/is_valid/exception/{exc_site(e)}/{type(e).__name__}", exc_text(e), phase="is_valid")
        return problems

    def check_np_result(phase, nxt, raw, built, val, P, shape):
        # shapes
        for (key, var), arr in raw.items():
            s0 = built.obj[key].states[var]
            if hasattr(arr, "shape") and hasattr(s0, "shape") and arr.shape != s0.shape:
                bad("C07/shape", f"{phase}: next {var} of {key} has shape {arr.shape}, state {s0.shape}",
                    phase=phase, val=val, P=P, shape=shape)
        if val is None:
            return
        ref = refmodel.step(spec, val, P)
        if ref.undefined:
            st.inc("vectors_with_model_0/0")
            return
        for (key, var), lst in nxt.items():
            if not all(np.isfinite(lst)):
                bad(f"C07/{phase.split(':')[0]}/nonfinite/{kind_of(spec, key)}",
                    f"{phase}: next {var} of {key} = {lst} for admissible finite inputs", phase=phase, val=val, P=P,
                    shape=shape)

    # 2. NumPy with user arrays --------------------------------------------------
    d = 1
    for shape in (("1d",) if light else ("1d", "0d")):
        for P in ((P0,) if light else (P0, P1)):
            for vlabel, val in finite_vectors(spec, d if (shape == "1d" and P is P0) else 0):
                st.inc("executions")
                st.inc("transitions")
                try:
                    nxt, built, raw = np_step(spec, val, P, scalar_shape=shape)
                except Exception as e:  # noqa: BLE001
                    bad(f"C07/numpy-user/exception/{exc_site(e)}/{type(e).__name__}",
                        f"NumPy step with user arrays ({shape}): {exc_text(e)}", phase="numpy-user", val=val, P=P,
                        shape=shape)
                    break
                check_np_result("numpy-user", nxt, raw, built, val, P, shape)
    # 3. NumPy with the engine's own variables -------------------------------------
    for vt in (("fill",) if light else ("fill", "rand")):
        for P in ((P1,) if light else (P0, P1)):
            st.inc("executions")
            st.inc("transitions")
            try:
                if vt == "fill":
                    eng = env.numpy_engine(np.float64(27.5))
                else:
                    np.random.seed(12345 + palette_seed)
                    eng = env.numpy_engine("rand")
                built = build(spec)
                built.net.step(engine=eng, **P)
                raw = read_next(built)
            except Exception as e:  # noqa: BLE001
                bad(f"C07/numpy-own/exception/{exc_site(e)}/{type(e).__name__}",
                    f"NumPy step with the engine's own variables ({vt}): {exc_text(e)}", phase="numpy-own", vt=vt, P=P)
                continue
            check_np_result("numpy-own", None, raw, built, None, P, None)
            for (key, var), arr in raw.items():
                if vt == "fill" and not np.all(np.isfinite(np.asarray(arr, dtype=float))):
                    bad(f"C07/numpy-own/nonfinite/{kind_of(spec, key)}", f"fill 27.5: next {var} of {key} = {arr}",
                        phase="numpy-own", vt=vt, P=P)
    # 4. CasADi --------------------------------------------------------------------
    vecs = [v for _, v in finite_vectors(spec, 1 if tier == "quick" else 1)]
    for sym in (("SX",) if light else ("SX", "MX")):
        for P in ((P0, P1) if (sym == "SX" and not light) else (P0,)):
            st.inc("executions")
            st.inc("transitions")
            try:
                built = build(spec)
                eng = env.casadi_engine(sym)
                built.net.step(engine=eng, **P)
            except Exception as e:  # noqa: BLE001
                bad(f"C07/casadi-step/exception/{exc_site(e)}/{type(e).__name__}", f"{sym} step: {exc_text(e)}",
                    phase="casadi", sym=sym, P=P)
                continue
            for key, var, n in spec.state_vars():
                el = built.obj[key]
                s0, s1 = el.states[var], (el.next_states or {}).get(var)
                if s1 is None or tuple(s1.shape) != tuple(s0.shape):
                    bad("C07/shape", f"{sym}: next {var} of {key} has shape {None if s1 is None else s1.shape}, "
                        f"state {s0.shape}", phase="casadi", sym=sym, P=P)
            for compact, more_out in ([(0, False), (2, True)] if light else itertools.product((0, 1, 2), (False, True))):
                st.inc("transitions")
                try:
                    kw = dict(P) if more_out else {}
                    F = eng.to_function(built.net, compact=compact, more_out=more_out, **kw)
                except Exception as e:  # noqa: BLE001
                    bad(f"C07/to_function/exception/compact{compact}/{exc_site(e)}/{type(e).__name__}",
                        f"{sym} to_function(compact={compact}, more_out={more_out}): {exc_text(e)}", phase="casadi",
                        sym=sym, P=P, compact=compact, more_out=more_out)
                    continue
                n_scal = sum(n for _, _, n, _ in spec.variables())
                if F.nnz_in() != n_scal:
                    bad("C07/to_function/argument-count", f"{sym} compact={compact}: {F.nnz_in()} scalar inputs, network "
                        f"has {n_scal} independent variables", phase="casadi", sym=sym, P=P, compact=compact,
                        more_out=more_out)
                    continue
                # numeric evaluation on boundary vectors
                try:
                    if compact == 0:
                        comp = Compiled(F, built)
                        use = vecs if (sym == "SX" and not more_out) else vecs[:: max(1, len(vecs) // 12)]
                        outs = comp.eval_many(use)
                        st.inc("executions", len(use))
                        for val, o in zip(use, outs):
                            ref = refmodel.step(spec, val, P)
                            if ref.undefined:
                                continue
                            for slot, arr in o.items():
                                if not np.all(np.isfinite(arr)):
                                    k = slot[0] if slot[0] != "x" else "flows"
                                    bad(f"C07/casadi/nonfinite/{kind_of(spec, k) if k != 'flows' else 'flows'}",
                                        f"{sym} compact=0: output {slot} = {arr.tolist()}", phase="casadi-eval", sym=sym,
                                        P=P, val=val, more_out=more_out)
                    else:
                        lay = Layout(spec, compact=compact, more_out=more_out)
                        for val in vecs[:: max(1, len(vecs) // 6)]:
                            ref = refmodel.step(spec, val, P)
                            args = lay.pack(val)
                            if [len(a) for a in args] != [F.size1_in(i) for i in range(F.n_in())]:
                                break  # layout is C04's business
                            res = F(*[cs.DM(a) if a else cs.DM(0, 1) for a in args])
                            res = res if isinstance(res, (list, tuple)) else [res]
                            st.inc("executions")
                            if ref.undefined:
                                continue
                            for r in res:
                                if not np.all(np.isfinite(np.array(r.full()))):
                                    bad("C07/casadi/nonfinite/compact", f"{sym} compact={compact}: non-finite output",
                                        phase="casadi-eval", sym=sym, P=P, val=val, compact=compact, more_out=more_out)
                except Exception as e:  # noqa: BLE001
                    bad(f"C07/casadi-eval/exception/{exc_site(e)}/{type(e).__name__}",
                        f"{sym} evaluating compact={compact}: {exc_text(e)}", phase="casadi-eval", sym=sym, P=P,
                        compact=compact, more_out=more_out)
    # 4a. every element called "x" (names are free constructor arguments)
    keys_ = [f"n{i}" for i in range(spec.n)] + spec.link_keys() + [f"O{o.node}" for o in spec.origins] + \
            [f"D{d_.node}" for d_ in spec.dests]
    xn = {k_: "x" for k_ in keys_}
    st.inc("executions", 2)
    st.inc("transitions", 3)
    try:
        nxt, built, raw = np_step(spec, valgen.base_vector(spec, 0), P0, built=build(spec, names=xn))
        check_np_result("numpy-equal-names", nxt, raw, built, valgen.base_vector(spec, 0), P0, "1d")
        eng = env.casadi_engine("MX" if light else "SX")
        built = build(spec, names=xn)
        built.net.step(engine=eng, **P0)
        F = eng.to_function(built.net, compact=1, more_out=True, **P0)
        if F.nnz_in() != sum(n for _, _, n, _ in spec.variables()):
            bad("C07/to_function/argument-count", f"all elements named x: {F.nnz_in()} scalar inputs", phase="equal-names")
    except Exception as e:  # noqa: BLE001
        bad(f"C07/equal-names/exception/{exc_site(e)}/{type(e).__name__}", f"all elements named x: {exc_text(e)}", phase="equal-names")
    # 4c. the same element objects re-used in a second network (fresh nodes) after the first one was stepped
    st.inc("executions", 2)
    st.inc("transitions", 4)
    try:
        from ..spec import rebuild_with_new_nodes
        val0 = valgen.base_vector(spec, 0)
        b1 = build(spec)
        np_step(spec, val0, P0, built=b1)
        b2 = rebuild_with_new_nodes(b1)
        nxt, built, raw = np_step(spec, val0, P0, built=b2)
        check_np_result("numpy-second-network", nxt, raw, built, val0, P0, "1d")
        eng = env.casadi_engine("SX")
        b1.net.step(engine=eng, **P0)
        b2.net.step(engine=eng, **P0)
        eng.to_function(b2.net, compact=0)
    except Exception as e:  # noqa: BLE001
        bad(f"C07/second-network/exception/{exc_site(e)}/{type(e).__name__}",
            f"same element objects re-used in a second network: {exc_text(e)}", phase="second-network")
    # 4b. the same network reached by editing another, already stepped network in place (non-initial state)
    for emode in (("attachments", "params") if light else ("links", "attachments", "replace", "params")):
        for sym in (("SX",) if light else ("SX", "MX")):
            st.inc("executions")
            st.inc("transitions", 3)
            try:
                eng = env.casadi_engine(sym)
                built = build_edited(spec, P0, emode, engine=eng)
                ok, msgs = built.net.is_valid()
                if not ok:
                    bad("C07/valid-network-rejected", f"edited ({emode}) network: is_valid -> {msgs}", phase="edited", emode=emode)
                    continue
                built.net.step(engine=eng, **P0)
                F = eng.to_function(built.net, compact=2, more_out=True, **P0)
                comp0 = Compiled(eng.to_function(built.net, compact=0), built)
                outs = comp0.eval_many(vecs[:2])
                for val, o in zip(vecs[:2], outs):
                    if refmodel.step(spec, val, P0).undefined:
                        continue
                    for slot, arr in o.items():
                        if not np.all(np.isfinite(arr)):
                            bad(f"C07/casadi/nonfinite/{kind_of(spec, slot[0])}", f"{sym} edited ({emode}) network: output {slot} = "
                                f"{arr.tolist()}", phase="edited", sym=sym, emode=emode)
            except Exception as e:  # noqa: BLE001
                bad(f"C07/edited/exception/{exc_site(e)}/{type(e).__name__}",
                    f"{sym}, network edited in place ({emode}) after a step: {exc_text(e)}", phase="edited", sym=sym, emode=emode)
    # 4d. every model parameter of the step given as a SYMBOL and declared through `parameters` (documented use): the
    # network must still step and compile at every level, with and without the extra flow outputs
    for sym in (("MX",) if light else ("SX", "MX")):
        st.inc("executions")
        st.inc("transitions", 3)
        try:
            XX = getattr(cs, sym)
            syms = {k_: XX.sym(k_) for k_ in P0}
            eng = env.casadi_engine(sym)
            built = build(spec)
            built.net.step(engine=eng, **syms)
            n_scal = sum(n for _, _, n, _ in spec.variables())
            for compact, more_out in (((1, True),) if light else ((0, True), (0, False), (1, True), (2, True), (2, False))):
                F = eng.to_function(built.net, compact=compact, more_out=more_out, parameters=syms)
                if F.nnz_in() != n_scal + len(syms) or F.get_free():
                    bad("C07/to_function/argument-count", f"{sym} compact={compact} more_out={more_out}, symbolic step parameters: "
                        f"{F.nnz_in()} scalar inputs, free symbols {F.get_free()}", phase="symbolic-step-parameters", sym=sym)
                elif compact == 0:
                    for val, o in zip(vecs[:2], Compiled(F, built, pnames=list(syms)).eval_many(vecs[:2], pvals=P0)):
                        if refmodel.step(spec, val, P0).undefined:
                            continue
                        for slot, arr in o.items():
                            if not np.all(np.isfinite(arr)):
                                bad(f"C07/casadi/nonfinite/{kind_of(spec, slot[0]) if slot[0] != 'x' else 'flows'}",
                                    f"{sym} symbolic step parameters: output {slot} = {arr.tolist()}",
                                    phase="symbolic-step-parameters", sym=sym)
        except Exception as e:  # noqa: BLE001
            bad(f"C07/symbolic-step-parameters/exception/{exc_site(e)}/{type(e).__name__}",
                f"{sym}, all step parameters symbolic and declared: {exc_text(e)}", phase="symbolic-step-parameters", sym=sym)
    # 5. positivity options -----------------------------------------------------------
    base = valgen.base_vector(spec, 0)
    for opts in (option_sets(tier)[-1:] if light else option_sets(tier)[1:]):
        st.inc("executions", 2)
        st.inc("transitions", 3)
        try:
            nxt, built, raw = np_step(spec, base, P0, opts=opts)
            check_np_result("numpy-opts", nxt, raw, built, base, P0, "1d")
        except Exception as e:  # noqa: BLE001
            bad(f"C07/numpy-opts/exception/{exc_site(e)}/{type(e).__name__}", f"NumPy step with {opts}: {exc_text(e)}",
                phase="numpy-opts", opts=opts)
        for sym in (("MX",) if light else ("SX", "MX")):
            try:
                F, built, eng = cs_compile(spec, sym, P0, opts=opts, compact=0)
                if F.nnz_in() != sum(n for _, _, n, _ in spec.variables()):
                    bad("C07/to_function/argument-count", f"{sym} with {opts}: {F.nnz_in()} scalar inputs",
                        phase="casadi-opts", sym=sym, opts=opts)
                else:
                    Compiled(F, built).eval_many([base])
            except Exception as e:  # noqa: BLE001
                bad(f"C07/casadi-opts/exception/{exc_site(e)}/{type(e).__name__}", f"{sym} with {opts}: {exc_text(e)}",
                    phase="casadi-opts", sym=sym, opts=opts)
    return problems


def worker(item):
    st = Stats()
    tier, seed, specs = item
    for label, spec in specs:
        st.inc("states")
        st.add_to("shapes", (spec.n, tuple((l.u, l.v) for l in spec.links)))
        problems = check_spec(spec, label, st, tier, seed, light=(tier == "quick" and label.startswith("dev:")))
        st.outcome((len(problems) == 0, spec.n, len(spec.links)))
        if len(st.samples) < 1 and len(spec.links) >= 3 and spec.origins:
            st.sample({"config": label, "spec": spec.describe()})
        for sig, msg, extra in problems:
            st.violation(sig, f"{spec.short()}: {msg}", {"spec": spec.describe(), "config": label, **extra})
    return st


def worker_invalid(item):
    """Networks the independent predicate calls INVALID: if the real validation accepts one anyway (C06's finding),
    then C07's antecedent holds for it and it must be steppable - report when it is not."""
    from ..spec import LinkS, OriginS, DestS, spec_valid
    n, edge_sets = item
    st = Stats()
    P0 = MODEL_PARAMS[0]
    for edges in edge_sets:
        for ocls in itertools.product((None, "ideal", "ramp_out"), repeat=n):
            for dcls in itertools.product((None, "free"), repeat=n):
                spec = NetSpec(n, tuple(LinkS(u, v) for u, v in edges),
                               tuple(OriginS(i, k) for i, k in enumerate(ocls) if k), tuple(DestS(i, k) for i, k in enumerate(dcls) if k))
                if spec_valid(spec):
                    continue
                st.inc("invalid_graphs_probed")
                try:
                    b = build(spec)
                    ok, msgs = b.net.is_valid()
                except Exception:  # noqa: BLE001
                    continue  # crashes of validation itself are C06's business
                if not ok:
                    continue
                st.inc("invalid_graphs_accepted")
                try:
                    b.net.step(engine=env.numpy_engine(np.float64(27.5)), **P0)
                    eng = env.casadi_engine("SX")
                    b2 = build(spec)
                    b2.net.step(engine=eng, **P0)
                    eng.to_function(b2.net, compact=0)
                except Exception as e:  # noqa: BLE001
                    st.violation(f"C07/accepted-invalid-network-cannot-be-stepped/{exc_site(e)}/{type(e).__name__}",
                                 f"{spec.short()}: validation accepts this network, but {exc_text(e)}",
                                 {"spec": spec.describe(), "config": "invalid-by-predicate", "phase": "accepted-invalid"})
    return st


def spec_list(tier, seed):
    pal = seed % 3
    if tier == "quick":
        specs = [(label, s) for _, label, s in all_specs(3, 3, 1, pal)]
        bounds = {"shapes": {"max_nodes": 3, "max_links": 3}, "config_deviation_bound": 1, "palette": pal,
                  "note": "base and uniform configurations get the full engine/level/option matrix, single-element deviations "
                          "a lighter one (NumPy 1-d arrays, SX at compact 0 and 2, MX with all options)"}
    else:
        specs = [(label, s) for _, label, s in all_specs(3, 4, 1, pal)]
        specs += [(label, s) for _, label, s in all_specs(4, 4, 0, pal) if s.n == 4]
        bounds = {"shapes": "(3,4) c<=1 and all 4-node shapes with <= 4 links at base + uniform configurations; full matrix",
                  "config_deviation_bound": 1, "palette": pal}
    specs += [(f"harness:{k}", s) for k, s in harness_specs(pal).items()]
    return specs, bounds


def explore(tier, seed, nproc):
    specs, bounds = spec_list(tier, seed)
    shards = [(tier, seed, sh) for sh in shards_of(specs, nproc * 6)]
    st = run_shards(worker, shards, nproc)
    inv_items = []
    for n in (1, 2, 3):
        pairs = [(u, v) for u in range(n) for v in range(n)]
        sets = [e for m in range(0, 4) for e in itertools.combinations(pairs, m)]
        inv_items += [(n, sh) for sh in shards_of(sets, 16)]
    st.merge(run_shards(worker_invalid, inv_items, nproc))
    cov = {
        "bounds": bounds,
        "networks": len(specs),
        "value_deviation_bound": 1,
        "rule": "a state is one network program (shape x configuration); each is validated, stepped with NumPy (user "
                "arrays 1-d/0-d, own variables) and CasADi SX/MX, compiled at 3 compactness levels x more_out, and "
                "evaluated on every single-excursion boundary vector; executions counts real step/evaluation runs",
    }
    assumptions = [
        "networks above the (n, m) bound are not built; every in/out-degree pattern up to the bound occurs",
        "finite-ness is required only for finite admissible inputs and skipped where the reference model meets 0/0",
        "infinite control values (no limit) are exercised by C18, not here",
    ]
    return st, cov, assumptions


def replay(case):
    spec = NetSpec.from_json(case["spec"])
    st = Stats()
    if case.get("phase") == "accepted-invalid":
        try:
            b = build(spec)
            ok, msgs = b.net.is_valid()
            if not ok:
                return [f"network {spec.short()} is rejected by validation: {msgs}"], False
            b.net.step(engine=env.numpy_engine(np.float64(27.5)), **MODEL_PARAMS[0])
            eng = env.casadi_engine("SX")
            b2 = build(spec)
            b2.net.step(engine=eng, **MODEL_PARAMS[0])
            eng.to_function(b2.net, compact=0)
            return [f"network {spec.short()} accepted and stepped"], False
        except Exception as e:  # noqa: BLE001
            return [f"network {spec.short()}: accepted by validation but {exc_text(e)}"], True
    problems = check_spec(spec, case.get("config", "?"), st, "quick", 0)
    lines = [f"network {spec.short()} ({case.get('config')})"]
    for sig, msg, extra in problems:
        lines.append(f"  {sig}: {msg}")
    return lines, bool(problems)
