"""C11 — positivity options are exactly clamps at zero.

Space N x option sets x V (inputs include negative densities, speeds and queues) x engines.
Oracle (metamorphic, the real code on both sides):
   step(opts)(x) == clamp_next( step(no options)( clamp_init(x) ) )
with the clamps applied by the harness to exactly the quantities the options name; with no
option, negative values go through unclamped (compared with the reference model where it is
defined).
"""
from __future__ import annotations

import itertools

import numpy as np

from .. import env
from ..core import Stats, exc_site, exc_text
from ..harness import OPTS, Compiled, close, cs_compile, np_step
from ..netgen import MODEL_PARAMS, all_specs, harness_specs
from ..parallel import run_shards, shards_of
from ..spec import NetSpec
from .. import refmodel, valgen

INIT_OF = {"positive_init_speed": "v", "positive_init_density": "rho", "positive_init_queue": "w"}
NEXT_OF = {"positive_next_speed": "v", "positive_next_density": "rho", "positive_next_queue": "w"}


def option_sets(mode):
    if mode == "all":
        return [frozenset(o for o, b in zip(OPTS, bits) if b) for bits in itertools.product((0, 1), repeat=6)][1:]
    sets = [frozenset([o]) for o in OPTS]
    sets += [frozenset(p) for p in itertools.combinations(OPTS, 2)]
    sets.append(frozenset(OPTS))
    if mode == "singles":
        return [frozenset([o]) for o in OPTS] + [frozenset(OPTS)]
    return sets


def clamp_init(val, opts):
    names = {INIT_OF[o] for o in opts if o in INIT_OF}
    out = {}
    for (key, var), lst in val.items():
        if var in names and (var != "w" or key.startswith("O")) and (var == "w" or key.startswith("L")):
            out[(key, var)] = [max(0.0, x) for x in lst]
        else:
            out[(key, var)] = list(lst)
    return out


def clamp_next(nxt, opts):
    names = {NEXT_OF[o] for o in opts if o in NEXT_OF}
    out = {}
    for (key, var), lst in nxt.items():
        if var in names:
            out[(key, var)] = [x if x != x else max(0.0, float(x)) for x in lst]
        else:
            out[(key, var)] = [float(x) for x in lst]
    return out


def special_vectors(spec: NetSpec):
    out = []
    for b in (0, 1):
        base = valgen.base_vector(spec, b)
        out.append((f"base{b}", base))
        neg = {k: ([-x for x in v] if k[1] in ("rho", "v", "w") else list(v)) for k, v in base.items()}
        out.append((f"base{b}-negated", neg))
        if any(k[0].startswith("D") for k in base):
            # ... and the scenario density of congested destinations negative too (no option names it: never clamped)
            negd = {k: ([-x for x in v] if (k[1] in ("rho", "v", "w") or k[0].startswith("D")) else list(v)) for k, v in base.items()}
            out.append((f"base{b}-negated-with-destination-scenario", negd))
        mixed = {}
        t = 0
        for k, v in base.items():
            lst = []
            for x in v:
                if k[1] in ("rho", "v", "w"):
                    t += 1
                    lst.append(-x if t % 2 else x)
                else:
                    lst.append(x)
            mixed[k] = lst
        out.append((f"base{b}-alternating", mixed))
    return out


def same(a, b):
    a, b = float(a), float(b)
    return close(a, b, 1e-12) or (a != a and b != b)


def compare(spec, got, exp, tag, vlabel, case, problems, st, sigprefix):
    for k, lst in exp.items():
        for j, e in enumerate(lst):
            st.inc("components_compared")
            g = got[k][j]
            if e != e:
                # the plain result is NaN (negative density under a non-integer power): max(0, NaN) is
                # engine-defined (NumPy keeps NaN, CasADi's fmax returns 0) - not compared
                st.inc("skipped:plain-result-nan")
                continue
            if not same(g, e):
                problems.append((f"{sigprefix}/{k[1]}", f"{tag}: next {k[1]}[{j}] of {k[0]} = {float(g)!r}, clamp(plain step(clamp(x))) "
                                 f"= {float(e)!r} at {vlabel}", case))
                return


def check_spec(spec: NetSpec, label, st: Stats, plan):
    problems = []
    P = MODEL_PARAMS[plan["pset"]]
    specials = special_vectors(spec)
    dvecs = list(valgen.vectors(spec, plan["d"], bases=plan.get("bases", (0, 1)), negatives=True))
    state_keys = [(k, v) for k, v, n in spec.state_vars()]
    # plain compiled functions
    plain = {}
    for sym in plan["cs_sym"]:
        try:
            F, built, eng = cs_compile(spec, sym, P, compact=0, more_out=True)
            plain[sym] = Compiled(F, built)
            st.inc("transitions", 2)
        except Exception as e:  # noqa: BLE001
            problems.append((f"C11/exception/{exc_site(e)}/{type(e).__name__}", f"{sym} plain: {exc_text(e)}",
                             {"spec": spec.describe(), "config": label, "P": P}))
            return problems
    # no option: negatives pass through unclamped (reference model where defined)
    for vlabel, val in specials:
        try:
            nxt, _, _ = np_step(spec, val, P)
            st.inc("executions")
            try:
                ref = refmodel.step(spec, val, P)
            except (TypeError, ValueError, ZeroDivisionError, OverflowError):
                continue
            for k, lst in ref.nxt.items():
                for j, e in enumerate(lst):
                    if isinstance(e, complex) or e != e or (k[0], k[1], j) in ref.skip:
                        continue
                    if not close(nxt[k][j], e):
                        problems.append((f"C11/no-options-not-plain/{k[1]}", f"numpy without options: next {k[1]}[{j}] of {k[0]} = "
                                         f"{nxt[k][j]!r}, unclamped model gives {e!r} at {vlabel}",
                                         {"spec": spec.describe(), "config": label, "P": P, "opts": [], "engine": "numpy"}))
                        break
            # the same through the per-element API (init_vars / step of every element) with the density and queue options
            # left at their defaults and the speed option switched off: nothing is clamped there either
            from ..harness import np_manual_steps
            st.inc("executions")
            man = np_manual_steps(spec, [val], P)[0]
            for k, lst in nxt.items():
                for j, e in enumerate(lst):
                    g = man[k][j]
                    if not (same(g, e)):
                        problems.append((f"C11/no-options-not-plain/element-api/{k[1]}", f"numpy, element-by-element stepping with "
                                         f"default density/queue options: next {k[1]}[{j}] of {k[0]} = {g!r}, Network.step without "
                                         f"options gives {e!r} at {vlabel}",
                                         {"spec": spec.describe(), "config": label, "P": P, "opts": [], "engine": "numpy"}))
                        break
        except Exception as e:  # noqa: BLE001
            problems.append((f"C11/exception/{exc_site(e)}/{type(e).__name__}", f"numpy plain: {exc_text(e)}",
                             {"spec": spec.describe(), "config": label, "P": P}))
            return problems
    for opts in plan["optsets"]:
        od = {o: True for o in opts}
        case = {"spec": spec.describe(), "config": label, "P": P, "opts": sorted(opts)}
        osig = "+".join(sorted(o.replace("positive_", "") for o in opts)) if len(opts) <= 2 else f"{len(opts)}-options"
        # NumPy on the special vectors
        for vlabel, val in specials:
            st.inc("executions", 2)
            st.inc("transitions", 2)
            try:
                got, _, _ = np_step(spec, val, P, opts=od)
                ref, _, _ = np_step(spec, clamp_init(val, opts), P)
            except Exception as e:  # noqa: BLE001
                problems.append((f"C11/exception/{exc_site(e)}/{type(e).__name__}", f"numpy {sorted(opts)}: {exc_text(e)}", case))
                break
            compare(spec, got, clamp_next(ref, opts), f"numpy {sorted(opts)}", vlabel, dict(case, engine="numpy"), problems, st,
                    f"C11/numpy/{osig}")
            # the same options as truthy values that are not the `True` singleton (numpy.bool_, as comparisons of arrays
            # yield, and the integer 1)
            for alt_name, alt in ((("numpy.True_", np.True_), ("1", 1)) if len(opts) in (1, 6) else ()):
                try:
                    st.inc("executions")
                    gota, _, _ = np_step(spec, val, P, opts={o: alt for o in opts})
                except Exception as e:  # noqa: BLE001
                    problems.append((f"C11/exception/{exc_site(e)}/{type(e).__name__}", f"numpy {sorted(opts)} given as {alt_name}: "
                                     f"{exc_text(e)}", case))
                    break
                compare(spec, gota, clamp_next(ref, opts), f"numpy {sorted(opts)} given as {alt_name}", vlabel,
                        dict(case, engine="numpy", flag_value=alt_name), problems, st, f"C11/numpy-flag-value/{osig}")
            # the same options given POSITIONALLY, in the documented order of Network.step
            if len(opts) not in (1, 2, 6) or (len(opts) == 2 and plan.get("no_positional_pairs")):
                continue
            try:
                st.inc("executions")
                gotp, _, _ = np_step(spec, val, P, opts=od, positional=True)
            except Exception as e:  # noqa: BLE001
                problems.append((f"C11/exception/{exc_site(e)}/{type(e).__name__}", f"numpy {sorted(opts)} positionally: {exc_text(e)}", case))
                break
            compare(spec, gotp, clamp_next(ref, opts), f"numpy {sorted(opts)} given positionally", vlabel,
                    dict(case, engine="numpy", positional=True), problems, st, f"C11/numpy-positional/{osig}")
        # compiled functions on all vectors
        for sym in plan["cs_sym"]:
            if sym == "MX" and len(opts) not in (1, 6):
                continue
            st.inc("transitions", 2)
            try:
                F, built, eng = cs_compile(spec, sym, P, opts=od, compact=0, more_out=True)
                comp = Compiled(F, built)
                allv = specials + (dvecs if len(opts) in (1, 6) or plan.get("dense") else [])
                got = comp.eval_many([v for _, v in allv])
                ref = plain[sym].eval_many([clamp_init(v, opts) for _, v in allv])
            except Exception as e:  # noqa: BLE001
                problems.append((f"C11/exception/{exc_site(e)}/{type(e).__name__}", f"{sym} {sorted(opts)}: {exc_text(e)}", case))
                continue
            st.inc("executions", 2 * len(allv))
            for (vlabel, val), g, r in zip(allv, got, ref):
                r2 = clamp_next({k: r[k] for k in state_keys}, opts)
                compare(spec, g, r2, f"{sym} {sorted(opts)}", vlabel, dict(case, engine=sym), problems, st, f"C11/{sym}/{osig}")
                # the extra flow outputs are functions of the (clamped) current states only
                for slot, arr in r.items():
                    if slot[0] != "x":
                        continue
                    garr = g.get(slot)
                    st.inc("components_compared", len(arr))
                    if garr is None or len(garr) != len(arr) or not all(same(x, y) for x, y in zip(garr, arr)):
                        problems.append((f"C11/{sym}/{osig}/flow-output", f"{sym} {sorted(opts)}: flow output {slot[1]} = "
                                         f"{None if garr is None else garr.tolist()}, plain function at the clamped inputs gives "
                                         f"{arr.tolist()} at {vlabel}", dict(case, engine=sym)))
                        break
    # histories: the same network objects stepped with one option set and then with another (engine-created
    # symbols); the second step must behave exactly like that step on a fresh network
    if plan.get("hist"):
        hsets = [frozenset()] + [frozenset([o]) for o in OPTS] + [frozenset(OPTS)]
        allv = specials
        for sym in plan["hist_sym"]:
            fresh = {}
            for o2 in hsets:
                F, built, eng = cs_compile(spec, sym, P, opts={o: True for o in o2}, compact=0)
                fresh[o2] = Compiled(F, built).eval_many([v for _, v in allv])
                st.inc("transitions", 2)
            for o1 in hsets:
                for o2 in hsets:
                    if o1 == o2:
                        continue
                    st.inc("transitions", 3)
                    st.inc("histories")
                    case = {"spec": spec.describe(), "config": label, "P": P, "opts": sorted(o2), "first_opts": sorted(o1),
                            "engine": sym, "hist": True}
                    try:
                        from ..spec import build as _build
                        b = _build(spec)
                        eng = env.casadi_engine(sym)
                        b.net.step(engine=eng, **P, **{o: True for o in o1})
                        b.net.step(engine=eng, **P, **{o: True for o in o2})
                        got = Compiled(eng.to_function(b.net, compact=0), b).eval_many([v for _, v in allv])
                    except Exception as e:  # noqa: BLE001
                        problems.append((f"C11/exception/{exc_site(e)}/{type(e).__name__}", f"{sym} step{sorted(o1)};step{sorted(o2)}: "
                                         f"{exc_text(e)}", case))
                        continue
                    st.inc("executions", len(allv))
                    done = False
                    for (vlabel, val), g, r in zip(allv, got, fresh[o2]):
                        for k in state_keys:
                            for j, e in enumerate(r[k]):
                                if not same(g[k][j], e):
                                    problems.append((f"C11/{sym}/history/{k[1]}", f"{sym}: after step{sorted(o1)} then step{sorted(o2)} "
                                                     f"next {k[1]}[{j}] of {k[0]} = {float(g[k][j])!r}; the second step alone gives "
                                                     f"{float(e)!r} at {vlabel}", case))
                                    done = True
                                    break
                            if done:
                                break
                        if done:
                            break
    return problems


def worker(item):
    plan, specs = item
    st = Stats()
    for label, spec in specs:
        st.inc("states")
        problems = check_spec(spec, label, st, plan)
        st.outcome((spec.n, len(spec.links), len(problems) == 0))
        if len(st.samples) < 1 and len(spec.links) >= 2 and spec.origins:
            st.sample({"config": label, "spec": spec.describe(), "option_sets": [sorted(o) for o in plan["optsets"][:8]],
                       "a_vector": {f"{k[0]}.{k[1]}": v for k, v in special_vectors(spec)[2][1].items()}})
        for sig, msg, case in problems:
            st.violation(sig, f"{spec.short()}: {msg}", case)
    return st


def plans(tier, seed):
    pal = (seed + 1) % 3
    if tier == "quick":
        a = [(lab, s) for _, lab, s in all_specs(3, 3, 1, pal)]
        a0 = [(lab, s) for _, lab, s in all_specs(3, 3, 0, pal)]
        jobs = [({"pset": 0, "d": 0, "optsets": option_sets("singles")[-1:] + option_sets("singles")[:2], "cs_sym": ["SX"]},
                 [x for x in a if x[0].startswith("dev:")]),
                ({"pset": 0, "d": 1, "optsets": option_sets("singles"), "cs_sym": ["SX"], "bases": (0,)}, a0),
                ({"pset": 0, "d": 0, "optsets": option_sets("pairs"), "cs_sym": ["SX"]},
                 [x for x in a0 if x[0] in ("base", "mixed", "all-vsl", "all-main/ramp_in", "all-N1-vsl", "all-cong")]),
                ({"pset": 0, "d": 0, "optsets": option_sets("singles"), "cs_sym": ["MX"]}, a0),
                ({"pset": 0, "d": 0, "optsets": option_sets("singles"), "cs_sym": ["SX", "MX"]},
                 [(f"harness:{k}", s) for k, s in harness_specs(pal).items()]),
                ({"pset": 0, "d": 0, "optsets": [], "cs_sym": [], "hist": True, "hist_sym": ["SX", "MX"]},
                 [(f"harness:{k}", s) for k, s in harness_specs(pal).items()])]
        bounds = {"shapes": "(n,m)<=(3,3): c<=1 with all six options and two single options on the special vectors; base+uniform "
                            "configurations with every single option and all six on single excursions (SX) and MX singles on the "
                            "special vectors; six of the twelve configuration families with all sets of <=2 options (22); harness list: all ordered pairs of 8 option sets "
                            "on the same objects (SX, MX)", "value_deviation": 1, "palette": pal}
    else:
        a = [(lab, s) for _, lab, s in all_specs(3, 4, 1, pal)]
        b = [(lab, s) for _, lab, s in all_specs(4, 4, 0, pal) if s.n == 4]
        h = [(f"harness:{k}", s) for k, s in harness_specs(pal).items()]
        jobs = [({"pset": 0, "d": 1, "optsets": option_sets("pairs"), "cs_sym": ["SX", "MX"]}, a + b),
                ({"pset": 1, "d": 1, "optsets": option_sets("all"), "cs_sym": ["SX", "MX"], "dense": True}, h),
                ({"pset": 2, "d": 0, "optsets": option_sets("all"), "cs_sym": ["SX"]},
                 [(lab, s) for _, lab, s in all_specs(3, 3, 0, pal)]),
                ({"pset": 0, "d": 0, "optsets": [], "cs_sym": [], "hist": True, "hist_sym": ["SX", "MX"]},
                 h + [(lab, s) for _, lab, s in all_specs(3, 2, 0, pal)])]
        bounds = {"shapes": "(3,4) c<=1 + 4-node (4,4): <=2 options + all six; harness list and (3,3) base configs: all 63 "
                            "non-empty option sets (harness with single excursions)", "palette": pal}
    return jobs, bounds


def explore(tier, seed, nproc):
    jobs, bounds = plans(tier, seed)
    st = Stats()
    nets = 0
    for plan, specs in jobs:
        nets += len(specs)
        st.merge(run_shards(worker, [(plan, sh) for sh in shards_of(specs, nproc * 8)], nproc))
    cov = {"bounds": bounds, "networks": nets,
           "rule": "a state is one (network program, option set); the real step/function with the options is compared with the "
                   "real plain step/function wrapped in harness clamps, on vectors containing negative values"}
    assumptions = ["NaN on both sides (negative density under a non-integer power) counts as equal",
                   "tolerance 1e-12 relative"]
    return st, cov, assumptions


def replay(case):
    spec = NetSpec.from_json(case["spec"])
    st = Stats()
    plan = {"pset": MODEL_PARAMS.index(case["P"]) if case["P"] in MODEL_PARAMS else 0, "d": 1,
            "optsets": [frozenset(case.get("opts", []))] if case.get("opts") else [],
            "cs_sym": [case["engine"]] if case.get("engine") in ("SX", "MX") else ["SX"]}
    problems = check_spec(spec, "?", st, plan)
    lines = [f"network {spec.short()} options {case.get('opts')}"] + [f"  {sig}: {msg}" for sig, msg, c in problems[:20]]
    return lines, bool(problems)
