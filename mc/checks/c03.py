"""C03 — the compiled CasADi function computes the same step as the NumPy engine.

Space N x configurations x V: every valid shape within (n, m) and configuration within the
deviation bound; for each the product {SX, MX} x compact {0,1,2} x more_out {F,T} x
{numeric parameters, symbolic rho_crit/a/v_free}; value vectors: base vectors and every
single excursion (incl. the mainstream guard region and zero speeds).
Oracle: NumPy `next_states` of a twin network built from the same spec, mapped to the
function's results through the layout model.
"""
from __future__ import annotations

import itertools
from dataclasses import replace

import casadi as cs

from .. import env
from ..core import Stats, exc_site, exc_text
from ..fn import eval_layout
from ..harness import close, np_step
from ..layout import Layout
from ..netgen import MODEL_PARAMS, all_specs, harness_specs
from ..parallel import run_shards, shards_of
from ..spec import NetSpec, build
from .. import valgen

PSYM = ("rho_crit", "a", "v_free")
PVAL = {"rho_crit": 31.25, "a": 1.93, "v_free": 107.5}


def variants(tier):
    """(sym, compact, more_out, symbolic_params)"""
    if tier == "quick":
        v = [("SX", c, m, False) for c in (0, 1, 2) for m in (False, True)]
        v += [("MX", 0, False, False), ("MX", 2, True, False), ("SX", 0, False, True), ("SX", 1, True, True),
              ("MX", 2, False, True)]
        return v
    return [(s, c, m, p) for s in ("SX", "MX") for c in (0, 1, 2) for m in (False, True) for p in (False, True)]


def uniform_param_spec(spec: NetSpec):
    return replace(spec, links=tuple(replace(l, rho_crit=PVAL["rho_crit"], a=PVAL["a"], v_free=PVAL["v_free"])
                                     for l in spec.links))


def compile_variant(spec: NetSpec, sym, compact, more_out, symbolic, P, opts=None):
    eng = env.casadi_engine(sym)
    XX = getattr(cs, sym)
    if symbolic:
        syms = {p: XX.sym(p) for p in PSYM}
        override = {(f"L{i}", p): syms[p] for i in range(len(spec.links)) for p in PSYM}
        built = build(spec, override=override)
    else:
        syms = None
        built = build(spec)
    built.net.step(engine=eng, **P, **(opts or {}))
    kw = dict(P) if more_out else {}
    if symbolic:
        F = eng.to_function(built.net, compact=compact, more_out=more_out, parameters=syms, **kw)
    else:
        F = eng.to_function(built.net, compact=compact, more_out=more_out, **kw)
    return F, built


def check_spec(spec: NetSpec, label, st: Stats, plan):
    problems = []
    P = MODEL_PARAMS[plan["pset"]]
    vecs = list(valgen.vectors(spec, plan["d"]))
    vals = [v for _, v in vecs]
    # NumPy oracle, twin networks
    oracle = {}
    for symbolic in (False, True):
        sp = uniform_param_spec(spec) if symbolic else spec
        res = []
        for val in vals:
            st.inc("executions")
            try:
                nxt, _, _ = np_step(sp, val, P)
            except Exception as e:  # noqa: BLE001
                problems.append((f"C03/numpy-exception/{exc_site(e)}/{type(e).__name__}", f"numpy twin: {exc_text(e)}",
                                 {"spec": spec.describe(), "config": label, "P": P}))
                return problems
            res.append(nxt)
        oracle[symbolic] = res
        if not any(v[3] for v in plan["variants"]):
            break
    for (sym, compact, more_out, symbolic) in plan["variants"]:
        st.inc("transitions", 2)
        case = {"spec": spec.describe(), "config": label, "P": P, "sym": sym, "compact": compact, "more_out": more_out,
                "symbolic": symbolic}
        try:
            F, built = compile_variant(spec, sym, compact, more_out, symbolic, P)
            lay = Layout(spec, compact=compact, more_out=more_out, pnames=PSYM if symbolic else ())
            outs = eval_layout(F, lay, vals, PVAL if symbolic else None)
        except Exception as e:  # noqa: BLE001
            problems.append((f"C03/exception/{exc_site(e)}/{type(e).__name__}",
                             f"{sym} compact={compact} more_out={more_out} symbolic={symbolic}: {exc_text(e)}", case))
            continue
        st.inc("executions", len(vals))
        st.inc("functions_compiled")
        for (vlabel, val), o, ref in zip(vecs, outs, oracle[symbolic]):
            for slot, x in o.items():
                if slot[0] != "x+":
                    continue
                e = ref[(slot[1], slot[2])][slot[3]]
                st.inc("components_compared")
                # NaN on both sides (the model's own 0/0) counts as agreement between engines
                if not (close(x, e) or (x != x and e != e)):
                    kind = "w" if slot[1].startswith("O") else slot[2]
                    problems.append((f"C03/mismatch/{kind}/{sym}",
                                     f"{sym} compact={compact} more_out={more_out} symbolic={symbolic}: next {slot[2]}[{slot[3]}] "
                                     f"of {slot[1]} = {x!r}, NumPy gives {e!r} at {vlabel}",
                                     dict(case, val={f"{k[0]}.{k[1]}": v for k, v in val.items()})))
    # positivity options (init: the variables become max(0, symbol) expressions; next: clamps on the results), on
    # vectors with negative entries
    if plan.get("posopts"):
        from .c11 import special_vectors
        nvecs = special_vectors(spec)
        for oname, opts in (("init", {"positive_init_speed": True, "positive_init_density": True, "positive_init_queue": True}),
                            ("next", {"positive_next_speed": True, "positive_next_density": True, "positive_next_queue": True})):
            try:
                refs = [np_step(spec, v, P, opts=opts)[0] for _, v in nvecs]
            except Exception as e:  # noqa: BLE001
                problems.append((f"C03/numpy-exception/{exc_site(e)}/{type(e).__name__}", f"numpy twin with {oname} options: "
                                 f"{exc_text(e)}", {"spec": spec.describe(), "config": label, "P": P}))
                continue
            st.inc("executions", len(nvecs))
            for sym, compact in plan["posopts"]:
                st.inc("transitions", 2)
                case = {"spec": spec.describe(), "config": label, "P": P, "sym": sym, "compact": compact, "more_out": False,
                        "symbolic": False, "posopts": oname}
                try:
                    F, built = compile_variant(spec, sym, compact, False, False, P, opts=opts)
                    outs = eval_layout(F, Layout(spec, compact=compact, more_out=False), [v for _, v in nvecs])
                except Exception as e:  # noqa: BLE001
                    problems.append((f"C03/exception/{exc_site(e)}/{type(e).__name__}", f"{sym} compact={compact} with {oname} "
                                     f"positivity options: {exc_text(e)}", case))
                    continue
                st.inc("executions", len(nvecs))
                st.inc("functions_compiled")
                for (vlabel, val), o, ref in zip(nvecs, outs, refs):
                    bad = None
                    for slot, x in o.items():
                        if slot[0] != "x+":
                            continue
                        e = ref[(slot[1], slot[2])][slot[3]]
                        st.inc("components_compared")
                        # NaN in NumPy (negative density under a non-integer power) is engine-defined under max(0, .)
                        if e != e or x != x:
                            continue
                        if not close(x, e):
                            bad = f"next {slot[2]}[{slot[3]}] of {slot[1]} = {x!r}, NumPy gives {e!r}"
                            break
                    if bad:
                        problems.append((f"C03/positivity-options/{oname}/{sym}", f"{sym} compact={compact} with the {oname} positivity "
                                         f"options: {bad} at {vlabel}", dict(case, val={f"{k[0]}.{k[1]}": v for k, v in val.items()})))
                        break
    # the same engine object and the same network: step and compile with OTHER model parameters first, then step and compile
    # again (same argument names) - the second function is the second step
    if plan.get("supply"):
        from ..harness import Compiled as _C2
        P_other = MODEL_PARAMS[2] if P is not MODEL_PARAMS[2] else MODEL_PARAMS[0]
        base = list(valgen.vectors(spec, 0))
        for sym in plan["supply"]:
            st.inc("transitions", 4)
            case = {"spec": spec.describe(), "config": label, "P": P, "sym": sym, "supplied": [], "recompiled": True}
            try:
                eng = env.casadi_engine(sym)
                b_ = build(spec)
                b_.net.step(engine=eng, **P_other)
                eng.to_function(b_.net, compact=0)
                eng.to_function(b_.net, compact=2, more_out=True, **P_other)
                b_.net.step(engine=eng, **P)
                outs = _C2(eng.to_function(b_.net, compact=0), b_).eval_many([v for _, v in base])
            except Exception as e:  # noqa: BLE001
                problems.append((f"C03/exception/{exc_site(e)}/{type(e).__name__}", f"{sym}, step/compile/step/compile on one engine: "
                                 f"{exc_text(e)}", case))
                continue
            st.inc("executions", len(base))
            for (vlabel, val), o in zip(base, outs):
                ref = np_step(spec, val, P)[0]
                bad = None
                for (key, var), lst in ref.items():
                    for j, e in enumerate(lst):
                        x = float(o[(key, var)][j])
                        st.inc("components_compared")
                        if not (close(x, e) or (x != x and e != e)):
                            bad = f"next {var}[{j}] of {key} = {x!r}, NumPy gives {e!r}"
                            break
                    if bad:
                        break
                if bad:
                    problems.append((f"C03/recompiled/{sym}", f"{sym}: function compiled after step(P'), compile, step(P) on the same "
                                     f"engine and network: {bad} at {vlabel}", case))
                    break
    # whole-number states given to the NumPy engine as arrays of INTEGER dtype (legal caller input) against the function
    if plan.get("supply"):
        from ..harness import Compiled as _C, cs_compile as _cc
        try:
            F_, b_, _ = _cc(spec, "SX", P, compact=0)
            comp_ = _C(F_, b_)
            for vlabel, val in valgen.vectors(spec, 0):
                vi = {k: [float(round(x)) if abs(x) != float("inf") else x for x in v] for k, v in val.items()}
                o = comp_.eval_many([vi])[0]
                for shape in ("1d", "0d"):
                    st.inc("executions", 2)
                    ref = np_step(spec, vi, P, integer=True, scalar_shape=shape)[0]
                    bad = None
                    for (key, var), lst in ref.items():
                        for j, e in enumerate(lst):
                            x = float(o[(key, var)][j])
                            st.inc("components_compared")
                            if not (close(x, e) or (x != x and e != e)):
                                bad = f"next {var}[{j}] of {key} = {x!r}, NumPy (integer arrays, {shape} scalars) gives {e!r}"
                                break
                        if bad:
                            break
                    if bad:
                        problems.append(("C03/integer-arrays/SX", f"SX compact=0: {bad} at {vlabel} rounded to whole numbers",
                                         {"spec": spec.describe(), "config": label, "P": P, "sym": "SX", "supplied": []}))
                        break
        except Exception as e:  # noqa: BLE001
            problems.append((f"C03/exception/{exc_site(e)}/{type(e).__name__}", f"integer caller arrays: {exc_text(e)}",
                             {"spec": spec.describe(), "config": label, "P": P, "sym": "SX", "supplied": []}))
    # the caller supplies its own symbols for only PART of the variables (partial init_conditions): same function values
    if plan.get("supply"):
        from ..harness import Compiled, cs_compile, supply_modes
        base = list(valgen.vectors(spec, 0))
        ref = [np_step(spec, v, P)[0] for _, v in base]
        for mlabel, supply in supply_modes(spec):
            for sym in plan["supply"]:
                st.inc("transitions", 2)
                st.inc("partial_condition_compilations")
                case = {"spec": spec.describe(), "config": label, "P": P, "sym": sym, "supplied": sorted(f"{k}.{v}" for k, v in supply)}
                try:
                    F, built, eng = cs_compile(spec, sym, P, compact=0, supply=supply)
                    outs = Compiled(F, built).eval_many([v for _, v in base])
                except Exception as e:  # noqa: BLE001
                    problems.append((f"C03/exception/{exc_site(e)}/{type(e).__name__}", f"{sym}, initial conditions {mlabel}: "
                                     f"{exc_text(e)}", case))
                    continue
                st.inc("executions", len(base))
                for (vlabel, val), o, r in zip(base, outs, ref):
                    bad = None
                    for (key, var), lst in r.items():
                        got = o.get((key, var))
                        if got is None or len(got) != len(lst):
                            bad = f"no result for next {var} of {key}"
                            break
                        for j, (x, e) in enumerate(zip(got, lst)):
                            st.inc("components_compared")
                            if not (close(float(x), e) or (x != x and e != e)):
                                bad = f"next {var}[{j}] of {key} = {float(x)!r}, NumPy gives {e!r}"
                                break
                        if bad:
                            break
                    if bad:
                        problems.append((f"C03/partial-conditions/{sym}", f"{sym}, initial conditions {mlabel}: {bad} at {vlabel}", case))
                        break
    return problems


def worker(item):
    plan, specs = item
    st = Stats()
    for label, spec in specs:
        st.inc("states")
        st.add_to("shapes", (spec.n, tuple((l.u, l.v) for l in spec.links)))
        problems = check_spec(spec, label, st, plan)
        st.outcome((spec.n, len(spec.links), len(problems) == 0))
        if len(st.samples) < 1 and len(spec.links) >= 2 and spec.origins:
            st.sample({"config": label, "spec": spec.describe(), "variants": plan["variants"][:4]})
        for sig, msg, case in problems:
            st.violation(sig, f"{spec.short()}: {msg}", case)
    return st


def plans(tier, seed):
    pal = seed % 3
    light = [("SX", 0, False, False), ("MX", 2, True, False), ("SX", 1, True, True)]
    if tier == "quick":
        jobs = [({"pset": 0, "d": 1, "variants": variants("quick")}, [(lab, s) for _, lab, s in all_specs(3, 3, 0, pal)]
                 + [(f"harness:{k}", s) for k, s in harness_specs(pal).items()]),
                ({"pset": 0, "d": 1, "variants": light}, [(lab, s) for _, lab, s in all_specs(3, 3, 1, pal) if lab.startswith("dev:")]),
                ({"pset": 0, "d": -1, "variants": [], "supply": ["SX"], "posopts": [("SX", 0), ("MX", 2)]},
                 [(lab, s) for _, lab, s in all_specs(3, 3, 0, pal) if lab in ("base", "mixed", "all-vsl", "all-main/ramp_in")]
                 + [(f"harness:{k}", s) for k, s in harness_specs(pal).items()])]
        bounds = {"shapes": "(n,m)<=(3,3): base+uniform configurations with 11 variants, c<=1 with 3 variants",
                  "partial_conditions": "(n,m)<=(3,3) base / mixed / all-vsl / all-main+ramp_in configurations + harness on SX: "
                                        "nothing supplied, every element omitted / alone, every variable omitted",
                  "value_deviation": 1, "palette": pal}
    else:
        a0 = [(lab, s) for _, lab, s in all_specs(3, 4, 0, pal)]
        a = [(lab, s) for _, lab, s in all_specs(3, 4, 1, pal)]
        b = [(lab, s) for _, lab, s in all_specs(4, 4, 0, pal) if s.n == 4]
        h = [(f"harness:{k}", s) for k, s in harness_specs(pal).items()]
        jobs = [({"pset": 0, "d": 1, "variants": variants("thorough")}, a0 + h),
                ({"pset": 0, "d": 1, "variants": variants("quick")}, a),
                ({"pset": 2, "d": 1, "variants": light}, b),
                ({"pset": 1, "d": 0, "variants": variants("thorough")}, a),
                ({"pset": 0, "d": -1, "variants": [], "supply": ["SX", "MX"],
                  "posopts": [(s_, c_) for s_ in ("SX", "MX") for c_ in (0, 1, 2)]}, a0 + h)]
        bounds = {"shapes": "(3,4) base+uniform + harness with all 24 variants (d<=1); (3,4) c<=1 with 11 variants (d<=1) and all "
                            "24 variants on the base vectors; 4-node shapes (4,4) base+uniform with 3 variants",
                  "value_deviation": 1, "palette": pal}
    return jobs, bounds


def explore(tier, seed, nproc):
    jobs, bounds = plans(tier, seed)
    st = Stats()
    nets = 0
    for plan, specs in jobs:
        nets += len(specs)
        st.merge(run_shards(worker, [(plan, sh) for sh in shards_of(specs, nproc * 8)], nproc))
    cov = {"bounds": bounds, "networks": nets,
           "rule": "a state is one network program; per program every listed (symbol type, compactness, more_out, "
                   "symbolic-parameter) variant is compiled by the real engine and evaluated on every vector; each result "
                   "scalar is compared with the NumPy step of a twin network"}
    assumptions = ["results are located through the layout model (mc/layout.py), which C04 checks independently",
                   "NaN produced by both engines at the model's own 0/0 counts as agreement",
                   "tolerance 1e-9 relative"]
    return st, cov, assumptions


def replay(case):
    spec = NetSpec.from_json(case["spec"])
    st = Stats()
    plan = {"pset": MODEL_PARAMS.index(case["P"]) if case["P"] in MODEL_PARAMS else 0, "d": 1,
            "variants": [(case["sym"], case["compact"], case["more_out"], case["symbolic"])] if ("compact" in case and "posopts" not in case) else
            ([] if ("supplied" in case or "posopts" in case) else variants("quick")),
            "supply": [case["sym"]] if "supplied" in case else None,
            "posopts": [(case["sym"], case["compact"])] if "posopts" in case else None}
    problems = check_spec(spec, case.get("config", "?"), st, plan)
    lines = [f"network {spec.short()}"] + [f"  {sig}: {msg}" for sig, msg, c in problems[:20]]
    return lines, bool(problems)
