"""C16 — symbolic model parameters behave like the numbers substituted for them.

Space N x subsets of {rho_crit, v_free, a, C, rho_max, L, T, tau, eta, kappa, delta, phi} made
symbolic x declaration orders x compact {0,1,2} x {SX, MX} x value vectors x 2 parameter value
sets.  Oracle: a twin network compiled by the same engine with plain numbers;
F_sym(args, p) == F_num(args) on every result (next states and flows); the parameters are the
trailing arguments in declared order (compact 0) or one stacked 'p' in declared order.
"""
from __future__ import annotations

import itertools
from dataclasses import replace

import casadi as cs
import numpy as np

from .. import env
from ..core import Stats, exc_site, exc_text
from ..fn import eval_layout
from ..harness import close
from ..layout import Layout
from ..netgen import all_specs, harness_specs
from ..parallel import run_shards, shards_of
from ..spec import NetSpec, build
from .. import valgen

LINKP = ("rho_crit", "v_free", "a", "rho_max", "L")
MODELP = ("T", "tau", "eta", "kappa", "delta", "phi")
ALLP = ("rho_crit", "v_free", "a", "C", "rho_max", "L", "T", "tau", "eta", "kappa", "delta", "phi")
PV = [
    dict(rho_crit=31.25, v_free=107.5, a=1.93, C=1900.0, rho_max=175.0, L=0.9, T=9 / 3600, tau=19 / 3600, eta=58.0,
         kappa=38.0, delta=0.015, phi=2.0),
    dict(rho_crit=35.5, v_free=96.0, a=1.71, C=2300.0, rho_max=188.0, L=1.2, T=11 / 3600, tau=17 / 3600, eta=63.0,
         kappa=43.0, delta=0.01, phi=1.6),
]
DEFAULT_MODEL = dict(T=10 / 3600, tau=18 / 3600, eta=60.0, kappa=40.0, delta=0.0122, phi=1.8)


def split(name):
    """'rho_crit' -> ('rho_crit', None);  'rho_crit_L1' -> ('rho_crit', 1)  (a parameter of one link only)"""
    if "_L" in name and name.rsplit("_L", 1)[1].isdigit():
        base, i = name.rsplit("_L", 1)
        return base, int(i)
    return name, None


def pval(pv, name):
    base, i = split(name)
    return pv[base] if i is None else pv[base] * (1.0 + 0.04 * (i + 1))


def numeric_twin_spec(spec: NetSpec, subset, pv):
    links = []
    for i, l in enumerate(spec.links):
        kw = {p: pv[p] for p in LINKP if p in subset}
        for p in LINKP:
            if f"{p}_L{i}" in subset:
                kw[p] = pval(pv, f"{p}_L{i}")
        links.append(replace(l, **kw))
    origins = tuple(replace(o, C=pv["C"]) if "C" in subset else o for o in spec.origins)
    return replace(spec, links=tuple(links), origins=origins)


def compile_sym(spec, sym, compact, declared, more_out=True, kw_all=False):
    """declared: tuple of parameter names in declaration order."""
    XX = getattr(cs, sym)
    # per-link parameters: the SYMBOLS carry the plain parameter name ("rho_crit"), as when links are created in a
    # loop; the dictionary keys (and hence the argument names) stay distinct
    syms = {p: XX.sym(split(p)[0]) for p in declared}
    override = {}
    for i in range(len(spec.links)):
        for p in LINKP:
            if p in syms:
                override[(f"L{i}", p)] = syms[p]
            if f"{p}_L{i}" in syms:
                override[(f"L{i}", p)] = syms[f"{p}_L{i}"]
    for o in spec.origins:
        if "C" in syms:
            override[(f"O{o.node}", "C")] = syms["C"]
    built = build(spec, override=override)
    eng = env.casadi_engine(sym)
    stepP = {k: (syms[k] if k in syms else v) for k, v in DEFAULT_MODEL.items()}
    built.net.step(engine=eng, **stepP)
    other = {k: v for k, v in stepP.items() if k not in syms}
    if kw_all:
        # the caller re-uses the keyword dictionary of net.step (symbols included) - legal without the flow outputs
        other = dict(stepP)
    F = eng.to_function(built.net, compact=compact, more_out=more_out, parameters=dict(syms), **other)
    return F


def compile_num(spec, sym, compact, subset, pv, more_out=True):
    sp = numeric_twin_spec(spec, subset, pv)
    built = build(sp)
    eng = env.casadi_engine(sym)
    P = {k: (pv[k] if k in subset else v) for k, v in DEFAULT_MODEL.items()}
    built.net.step(engine=eng, **P)
    return eng.to_function(built.net, compact=compact, more_out=more_out, **P)


def check_one(spec, label, st, sym, compact, declared, vecs, problems, pvs=(0, 1), more_out=True, kw_all=False):
    vals = [v for _, v in vecs]
    case = {"spec": spec.describe(), "config": label, "sym": sym, "compact": compact, "declared": list(declared),
            "more_out": more_out, "kw_all": kw_all}
    tag = f"{sym} compact={compact} parameters={list(declared)}" + ("" if more_out else " more_out=False, step keywords re-used")
    st.inc("transitions", 2)
    st.inc("functions_compiled")
    try:
        F = compile_sym(spec, sym, compact, declared, more_out, kw_all)
    except Exception as e:  # noqa: BLE001
        problems.append((f"C16/exception/{exc_site(e)}/{type(e).__name__}", f"{tag}: {exc_text(e)}", case))
        return
    lay = Layout(spec, compact=compact, more_out=more_out, pnames=declared)
    names = list(F.name_in())
    if declared:
        if compact <= 0:
            tail = names[len(names) - len(declared):]
            if tail != list(declared):
                problems.append(("C16/parameter-order/compact0", f"{tag}: trailing argument names {tail}", case))
                return
        elif names[-1] != "p" or F.size1_in(F.n_in() - 1) != len(declared):
            problems.append((f"C16/parameter-argument/compact{compact}", f"{tag}: last argument {names[-1]} of size "
                             f"{F.size1_in(F.n_in() - 1)}", case))
            return
    if F.get_free():
        problems.append(("C16/free-symbols", f"{tag}: free symbols {F.get_free()}", case))
        return
    for pi in pvs:
        pv = PV[pi]
        try:
            Fn = compile_num(spec, sym, compact, set(declared), pv, more_out)
            layn = Layout(spec, compact=compact, more_out=more_out)
            o_sym = eval_layout(F, lay, vals, {d_: pval(pv, d_) for d_ in declared})
            o_num = eval_layout(Fn, layn, vals)
        except Exception as e:  # noqa: BLE001
            problems.append((f"C16/exception/{exc_site(e)}/{type(e).__name__}", f"{tag}: {exc_text(e)}", case))
            return
        st.inc("executions", 2 * len(vals))
        for (vlabel, val), a, b in zip(vecs, o_sym, o_num):
            for slot, x in a.items():
                y = b[slot]
                st.inc("components_compared")
                if not (close(x, y) or (x != x and y != y)):
                    which = [p for p in declared]
                    problems.append((f"C16/mismatch/{'+'.join(sorted(which)) if len(which) <= 2 else 'many'}",
                                     f"{tag}: result {slot} = {x!r} with symbols at {pv}, {y!r} with numbers, at {vlabel}",
                                     dict(case, pvals=pi)))
                    return


def subsets_for(idx, mode):
    subs = [()] + [(p,) for p in ALLP] + [ALLP]
    pairs = list(itertools.combinations(ALLP, 2))
    if mode in ("rotating", "pairs"):
        # parameters of individual links (one symbol per link instead of one shared by all links)
        subs += [("rho_crit_L0", "rho_crit_L1", "rho_crit_L2", "rho_crit_L3"), ("a_L1", "v_free_L0", "L_L1", "T"),
                 ("rho_max_L0", "C", "rho_max_L1"),
                 ("rho_crit_L0", "a_L0", "rho_crit_L1", "a_L1", "rho_crit_L2", "a_L2")]  # declared link by link
    if mode == "rotating":
        k = 3
        subs += [pairs[(idx * k + j) % len(pairs)] for j in range(k)]
    elif mode == "pairs":
        subs += pairs
    elif mode == "all":
        subs = [tuple(p for p, bit in zip(ALLP, bits) if bit) for bits in itertools.product((0, 1), repeat=len(ALLP))]
    return subs


def worker(item):
    plan, specs = item
    st = Stats()
    for idx, label, spec, k, K in specs:
        if k == 0:
            st.inc("states")
        problems = []
        vecs = list(valgen.vectors(spec, plan["d"]))
        vecs = [(l_, v) for l_, v in vecs if all(abs(x) != float("inf") for lst in v.values() for x in lst)]
        for si, sub in enumerate(subsets_for(idx, plan["subsets"])):
            if si % K != k:
                continue
            sub = tuple(x for x in sub if split(x)[1] is None or split(x)[1] < len(spec.links))
            st.add_to("subsets", sub)
            for sym, compact in plan["variants"]:
                check_one(spec, label, st, sym, compact, sub, vecs, problems,
                          pvs=(0, 1) if plan.get("both_pv") else ((si + idx) % 2,))
        if plan.get("orders") and k == 0:
            for trio in (("T", "rho_crit", "C"), ("a", "tau", "v_free")):
                for perm in itertools.permutations(trio):
                    # ... also levels outside {0, 1, 2}: anything <= 0 means 'no aggregation'
                    for sym, compact in (("SX", 0), ("SX", 2), ("MX", 1), ("SX", -1), ("MX", -3)):
                        check_one(spec, label, st, sym, compact, perm, vecs[:2], problems)
                    # without the flow outputs, re-using the whole keyword dictionary of net.step (symbols included)
                    for sym, compact in (("SX", 2), ("MX", 0)):
                        check_one(spec, label, st, sym, compact, perm, vecs[:2], problems, more_out=False, kw_all=True)
        st.outcome((spec.n, len(spec.links), len(problems) == 0))
        if len(st.samples) < 1 and len(spec.links) >= 2:
            st.sample({"config": label, "spec": spec.describe(), "subsets": [list(s) for s in subsets_for(idx, plan["subsets"])[:20]]})
        for sig, msg, case in problems:
            st.violation(sig, f"{spec.short()}: {msg}", case)
    return st


def plans(tier, seed):
    pal = seed % 3
    h = [(i, f"harness:{k}", s) for i, (k, s) in enumerate(harness_specs(pal).items())]
    if tier == "quick":
        a = [(i, lab, s) for i, (_, lab, s) in enumerate(all_specs(3, 3, 0, pal))]
        jobs = [({"d": 0, "subsets": "rotating", "variants": [("SX", 0), ("MX", 2)]}, a),
                ({"d": 1, "subsets": "pairs", "variants": [("SX", 0), ("MX", 2)], "orders": True, "both_pv": True}, h)]
        bounds = {"nets": "(n,m)<=(3,3) base+uniform configurations: empty set, 12 singletons, full set, 3 pairs assigned "
                          "round-robin (all 66 pairs occur across networks); harness list: all subsets of size <= 2 + full, "
                          "all 6 declaration orders of two parameter triples", "palette": pal}
    else:
        a = [(i, lab, s) for i, (_, lab, s) in enumerate(all_specs(3, 4, 1, pal))]
        jobs = [({"d": 0, "subsets": "rotating", "variants": [("SX", 0), ("SX", 2), ("MX", 1)]}, a),
                ({"d": 1, "subsets": "pairs", "variants": [(s, c) for s in ("SX", "MX") for c in (0, 1, 2)], "orders": True,
                 "both_pv": True}, h),
                ({"d": 0, "subsets": "all", "variants": [("SX", 0)]}, h)]
        bounds = {"nets": "(3,4) c<=1 with singletons/full/rotating pairs; harness list with all subsets of size <= 2 on 6 "
                          "variants and ALL 4096 subsets on SX compact 0", "palette": pal}
    return jobs, bounds


def explore(tier, seed, nproc):
    jobs, bounds = plans(tier, seed)
    st = Stats()
    nets = 0
    for plan, specs in jobs:
        nets += len(specs)
        K = 1 if len(specs) >= nproc * 4 else 16
        items = [(i, lab, sp, k, K) for (i, lab, sp) in specs for k in range(K)]
        st.merge(run_shards(worker, [(plan, sh) for sh in shards_of(items, nproc * 8)], nproc))
    cov = {"bounds": bounds, "networks": nets, "parameter_value_sets": 2,
           "rule": "a state is one (network program, symbolic-parameter subset); each is compiled symbolically and "
                   "numerically by the real engine and every result scalar is compared on every vector"}
    assumptions = ["a symbolic link parameter is shared by all links (as in the library's examples); lanes and turn rates are "
                   "never symbolic", "results are located through the layout model (checked by C04)", "tolerance 1e-9"]
    return st, cov, assumptions


def replay(case):
    spec = NetSpec.from_json(case["spec"])
    st = Stats()
    problems = []
    vecs = list(valgen.vectors(spec, 0))
    check_one(spec, "?", st, case["sym"], case["compact"], tuple(case["declared"]), vecs, problems,
              more_out=case.get("more_out", True), kw_all=case.get("kw_all", False))
    lines = [f"network {spec.short()}"] + [f"  {sig}: {msg}" for sig, msg, c in problems]
    return lines, bool(problems)
