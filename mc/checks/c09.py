"""C09 — construction calls build exactly the described graph; malformed paths rejected.

 (i)  every history of construction calls over the alphabet up to a depth; after every
      call the real graph (in labels) must equal the reference model's graph.
 (ii) every path shape: all sequences up to a length over {3 nodes, 2 links, an Origin
      object, a str}, with/without origin and destination arguments, on an empty network
      and on a network that already holds a chain.  Well-formed => no exception and graph
      == model; malformed => an exception; always: only Node objects are graph nodes, every
      edge carries a Link, nothing that was there has disappeared.
"""
from __future__ import annotations

import itertools

from .. import env
from ..core import Stats, exc_site, exc_text
from ..graphmodel import (Model, Universe, STD_UNIVERSE, apply_real, path_well_formed, snapshot, type_problems)
from ..parallel import run_shards, shards_of
from .c08 import MUTATIONS

import sym_metanet as M

EXTRA = [
    ("add_nodes", ("c", "c", "a")),
    ("add_links", (("a", "L1", "b"), ("a", "L2", "b"))),
    ("add_link", "b", "L1", "a"),
    ("add_destination", "D2", "a"),
    ("add_origin", "O2", "b"),
    ("add_path", ("b", "L2", "b"), None, "D2"),
    # the same bulk calls with one-shot iterables (generators) instead of lists/tuples
    ("add_nodes", ("a", "b", "c"), "gen"),
    ("add_links", (("a", "L1", "b"), ("b", "L2", "c")), "gen"),
    ("add_path", ("a", "L1", "b", "L2", "c"), "O1", "D1", "gen"),
]
ALPHABET = MUTATIONS + EXTRA

PATH_UNIVERSE = dict(STD_UNIVERSE)
PATH_UNIVERSE["X"] = ("origin", "ideal")  # a non-node, non-link element used as a path token
PATH_UNIVERSE["s"] = ("raw", "just-a-string")
TOKENS = ["a", "b", "c", "L1", "L2", "X", "s"]


def malformed_class(path, U):
    if len(path) == 0:
        return "empty"
    if U.kind[path[0]] != "node":
        return "first-not-node"
    if len(path) == 1:
        return "single-node"
    for i, p in enumerate(path):
        want = "node" if i % 2 == 0 else "link"
        if U.kind[p] != want:
            return f"alternation-expected-{want}"
    return "ends-with-link"


def survived(before, after):
    out = []
    for n, (o, d) in before.nodes.items():
        if n not in after.nodes:
            out.append(f"node {n} disappeared")
            continue
        o2, d2 = after.nodes[n]
        if o is not None and o2 is None:
            out.append(f"origin of {n} disappeared")
        if d is not None and d2 is None:
            out.append(f"destination of {n} disappeared")
    for e in before.edges:
        if e not in after.edges:
            out.append(f"edge {e} disappeared")
    return out


def step_and_check(net, model, U, op, st, problems):
    before = snapshot(net, U)
    verdict = model.apply(op, U)
    st.inc("transitions")
    exc = apply_real(net, op, U)
    after = snapshot(net, U)
    for p in type_problems(net):
        problems.append(("C09/non-node-in-graph", f"after {op}: {p}"))
    for p in survived(before, after):
        problems.append(("C09/disappeared", f"after {op}: {p}"))
    if verdict == "ok":
        if exc is not None:
            problems.append((f"C09/exception-on-wellformed/{op[0]}/{exc_site(exc)}", f"{op} raised {exc_text(exc)}"))
            model.load(after)
        elif after != model.snap():
            problems.append((f"C09/graph-mismatch/{op[0]}",
                             f"after {op}: graph {after.to_json()} but described {model.snap().to_json()}"))
            model.load(after)
        st.outcome(("ok", exc is None))
    else:
        if exc is None:
            problems.append((f"C09/malformed-accepted/{malformed_class(op[1], U)}",
                             f"malformed path {op[1]} (origin={op[2]}, destination={op[3]}) was accepted; graph now {after.to_json()}"))
        st.outcome(("reject", type(exc).__name__ if exc is not None else None))
        model.load(after)  # partial mutation before the rejection is allowed
    return exc


def run_history(ops, st, universe=STD_UNIVERSE, namer=None):
    U = Universe(universe, namer)
    net = M.Network(name="net")
    model = Model()
    problems = []
    for op in ops:
        step_and_check(net, model, U, op, st, problems)
    return problems, net, U


def worker_hist(item):
    firsts, depth = item
    st = Stats()
    for first in firsts:
        for rest in itertools.product(ALPHABET, repeat=depth - 1):
            ops = (first,) + rest
            st.inc("states")
            st.inc("executions")
            problems, net, U = run_history(ops, st)
            if len(st.samples) < 1 and depth >= 3:
                st.sample({"part": "i", "history": ops, "graph": snapshot(net, U).to_json()})
            for sig, msg in problems:
                st.violation(sig, msg, {"part": "i", "history": ops})
            if depth <= 2:
                # the same history with every object (nodes, links, origins, destinations) called "x": the graph
                # is made of objects, not of names
                from ..graphmodel import SAME_NAME
                st.inc("states")
                st.inc("executions")
                problems, net, U = run_history(ops, st, namer=SAME_NAME)
                for sig, msg in problems:
                    st.violation(sig + "/equal-names", msg, {"part": "i", "history": ops, "equal_names": True})
    return st


START_CHAIN = [("add_path", ("a", "L1", "b"), "O2", "D2")]


def worker_paths(item):
    prefixes, maxlen = item
    st = Stats()
    for prefix in prefixes:
        for L in range(len(prefix), maxlen + 1):
            for tail in itertools.product(TOKENS, repeat=L - len(prefix)):
                if L > len(prefix) and len(prefix) == 0:
                    continue  # prefixes of length 0 only stand for the empty path
                path = tuple(prefix) + tail
                for o in (None, "O1"):
                    for d in (None, "D1"):
                        for start in (0, 1):
                            ops = (START_CHAIN if start else []) + [("add_path", path, o, d) + (("gen",) if start else ())]
                            st.inc("states")
                            st.inc("executions")
                            problems, net, U = run_history(ops, st, PATH_UNIVERSE)
                            wf = path_well_formed(path, U)
                            st.inc("wellformed" if wf else "malformed")
                            if len(st.samples) < 1 and wf and len(path) >= 5:
                                st.sample({"part": "ii", "path": path, "origin": o, "destination": d,
                                           "start": start, "graph": snapshot(net, U).to_json()})
                            for sig, msg in problems:
                                st.violation(sig, msg, {"part": "ii", "history": ops})
    return st


def explore(tier, seed, nproc):
    depth = 3 if tier == "quick" else 4
    maxlen = 5 if tier == "quick" else 6
    st = Stats()
    rot = seed % len(ALPHABET)
    alpha = ALPHABET[rot:] + ALPHABET[:rot]
    per_depth = {}
    for d in range(1, depth + 1):
        r = run_shards(worker_hist, [([m], d) for m in alpha], nproc)
        per_depth[d] = r.c.get("states", 0)
        st.merge(r)
    # path shapes: shard on the first two tokens
    items = [([()], 0)]
    items += [([(t,)], 1) for t in TOKENS]
    items += [([(t1, t2)], maxlen) for t1 in TOKENS for t2 in TOKENS]
    r = run_shards(worker_paths, items, nproc)
    st.merge(r)
    cov = {
        "part_i": {"alphabet": len(ALPHABET), "depth_completed": depth, "histories_per_depth": per_depth},
        "part_ii": {"tokens": TOKENS, "max_path_length": maxlen, "path_calls": r.c.get("states", 0),
                    "wellformed": r.c.get("wellformed", 0), "malformed": r.c.get("malformed", 0)},
        "rule": "i: all call sequences over the construction alphabet up to the depth, graph == model after every call; "
                "ii: all token sequences up to the length x origin x destination x start network",
    }
    assumptions = [
        "path elements other than Node/Link are represented by an Origin object and a str",
        "partial graph mutation before a malformed path is rejected is allowed (the property does not forbid it)",
    ]
    return st, cov, assumptions


def _detuple(x):
    if isinstance(x, list):
        return tuple(_detuple(y) for y in x)
    return x


def replay(case):
    st = Stats()
    ops = [_detuple(op) for op in case["history"]]
    uni = PATH_UNIVERSE if case.get("part") == "ii" else STD_UNIVERSE
    from ..graphmodel import SAME_NAME
    problems, net, U = run_history(ops, st, uni, SAME_NAME if case.get("equal_names") else None)
    lines = ["history:"] + [f"   {op}" for op in ops] + [f"graph now: {snapshot(net, U).to_json()}"]
    for sig, msg in problems:
        lines.append(f"  {sig}: {msg}")
    return lines, bool(problems)
