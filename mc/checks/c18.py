"""C18 — neutral controls reproduce the uncontrolled model; limits never raise speeds.

Space N x paired configurations x V: for every valid shape within the bound, each controlled
element in every position:
  A. link i as LinkWithVsl (N in 1..3, every VSL set option incl. the empty set) with all limits
     infinite  ==  the same link as a plain Link                        (all next states)
  B. the same VSL link with one finite limit from {20, 60, 200}  vs all infinite:
     v+ never larger on any segment; every other next state identical
  C. ramp j as metered 'in' with r = 1 == metered 'out' with r = 1 == limited simplified with
     desired flow = infinity                                           (all next states)
  D. mainstream origin j with speed limit in {inf, 1e6, its first-segment speed}: identical
Values: base vectors + single (thorough: pair) excursions of the other variables; NumPy and SX.
"""
from __future__ import annotations

from dataclasses import replace

from .. import env
from ..core import Stats, exc_site, exc_text
from ..harness import Compiled, close, cs_compile, np_step
from ..netgen import MODEL_PARAMS, base_spec, shapes, vsl_options, harness_specs
from ..parallel import run_shards, shards_of
from ..spec import NetSpec, spec_valid
from .. import valgen

INF = float("inf")
LIMITS = (20.0, 60.0, 200.0)


class Runner:
    """Evaluates next states of a spec on many vectors with NumPy and SX."""

    def __init__(self, spec, P, st):
        self.spec, self.P, self.st = spec, P, st
        F, built, eng = cs_compile(spec, "SX", P, compact=0)
        self.comp = Compiled(F, built)
        st.inc("transitions", 2)

    def run(self, vals, numpy_too):
        outs = self.comp.eval_many(vals)
        self.st.inc("executions", len(vals))
        res = [("SX", [{k: [float(x) for x in o[k]] for k in o if k[0] != "x"} for o in outs])]
        if numpy_too:
            res.append(("numpy", [np_step(self.spec, v, self.P)[0] for v in vals]))
            self.st.inc("executions", len(vals))
        return res


def same_all(a, b, tol=1e-12, skip=()):
    for k, lst in a.items():
        for j, x in enumerate(lst):
            if (k[0], k[1], j) in skip:
                continue
            y = b[k][j]
            if not (close(x, y, tol) or (x != x and y != y)):
                return f"next {k[1]}[{j}] of {k[0]}: {x!r} vs {y!r}"
    return None


def other_vectors(spec, d, fixed_keys):
    """Vectors of `spec` in which the variables in fixed_keys stay at their base value."""
    out = []
    for label, v in valgen.vectors(spec, d):
        if any(f"{k[0]}.{k[1]}[" in label for k in fixed_keys):
            continue
        out.append((label, v))
    return out


def strip(val, spec):
    keys = {(k, v) for k, v, n, r in spec.variables()}
    return {k: x for k, x in val.items() if k in keys}


def check_shape(shape, st: Stats, plan):
    problems = []
    P = MODEL_PARAMS[plan["pset"]]
    base = base_spec(shape, plan["pal"])
    d = plan["d"]

    def report(sig, msg, case):
        problems.append((sig, msg, case))

    # ---- A / B: speed-limited links ------------------------------------------------------
    for i, l in enumerate(base.links):
        # (a 12-segment link - signs on two-digit segment indices - on the one-link shapes)
        for N in ((1, 2, 3, 12) if len(base.links) == 1 else (1, 2, 3)):
            plain = replace(base, links=tuple(replace(x, N=N) if j == i else x for j, x in enumerate(base.links)))
            try:
                rp = Runner(plain, P, st)
                pv = list(valgen.vectors(plain, d))
                plain_out = rp.run([v for _, v in pv], True)
            except Exception as e:  # noqa: BLE001
                report(f"C18/exception/{exc_site(e)}/{type(e).__name__}", exc_text(e), {"spec": plain.describe(), "P": P})
                continue
            for vs in (vsl_options(N) if N <= 3 else [(1, 8, 11), (0, 9)]):
                sv = replace(base, links=tuple(replace(x, N=N, vsl=vs) if j == i else x for j, x in enumerate(base.links)))
                case = {"spec": sv.describe(), "P": P, "pair": "A", "link": i}
                st.inc("pairs")
                try:
                    rv = Runner(sv, P, st)
                    vals = []
                    for _, v in pv:
                        v2 = dict(v)
                        v2[(f"L{i}", "v_ctrl")] = [INF] * len(vs)
                        vals.append(v2)
                    inf_out = rv.run(vals, True)
                    for (eng, a), (_, b) in zip(inf_out, plain_out):
                        for (vl, _), x, y in zip(pv, a, b):
                            msg = same_all(y, x)
                            if msg:
                                report(f"C18/vsl-infinite-vs-plain/{'empty' if not vs else 'set'}/{eng}",
                                       f"{sv.short()}: link L{i} with VSL set {vs} and infinite limits vs plain link: {msg} at {vl}", case)
                                break
                    # A': (i) a simulation loop that passes the SAME caller arrays to two consecutive NumPy steps, and
                    # (ii) a single positivity-init option on sign-flipped values: still exactly the plain link
                    from ..harness import np_inputs, read_next, to_lists
                    from ..spec import build as _build
                    for vl, v in pv[:2]:
                        v2 = dict(v)
                        v2[(f"L{i}", "v_ctrl")] = [INF] * len(vs)
                        outs2 = []
                        for sp_, vals_ in ((sv, v2), (plain, v)):
                            b_ = _build(sp_)
                            ic_ = np_inputs(b_, vals_)
                            for rep in range(2):
                                if rep == 1:  # the caller lowers every density (equilibrium speeds rise), same control arrays
                                    for el_, d_ in ic_.items():
                                        if "rho" in d_:
                                            d_["rho"] = d_["rho"] * 0.4
                                b_.net.step(init_conditions=ic_, engine=env.numpy_engine(), **P)
                            outs2.append(to_lists(read_next(b_)))
                        st.inc("executions", 4)
                        msg = same_all(outs2[1], outs2[0])
                        if msg:
                            report("C18/vsl-infinite-vs-plain/second-step-same-arrays/numpy",
                                   f"{sv.short()}: second NumPy step from the same caller arrays, L{i} VSL {vs} with infinite limits vs "
                                   f"plain: {msg} at {vl}", dict(case, pair="A2"))
                        # (iii) the same objects stepped twice: first with FINITE limits, then with the states only, on an engine
                        # whose own variables are infinite (the neutral limit): exactly the plain link again
                        if vs:
                            import numpy as _np
                            outs3 = []
                            fin_ = dict(v)
                            fin_[(f"L{i}", "v_ctrl")] = [LIMITS[0]] * len(vs)
                            for sp_, first_, second_ in ((sv, fin_, v2), (plain, v, v)):
                                b_ = _build(sp_)
                                eng_ = env.numpy_engine(_np.inf)
                                np_step(sp_, first_, P, built=b_, engine=eng_)
                                outs3.append(np_step(sp_, second_, P, built=b_, engine=eng_,
                                                     supply=frozenset(k_ for k_ in second_ if k_ != (f"L{i}", "v_ctrl")))[0])
                            st.inc("executions", 4)
                            msg = same_all(outs3[1], outs3[0])
                            if msg:
                                report("C18/vsl-infinite-vs-plain/engine-created-limits-after-finite-step/numpy",
                                       f"{sv.short()}: L{i} VSL {vs} stepped with limit {LIMITS[0]}, then again with the states only on an "
                                       f"engine whose own variables are infinite, vs plain link: {msg} at {vl}", dict(case, pair="A4"))
                        # (iv) whole-number states given as arrays of INTEGER dtype: neutral limits still reproduce the plain link
                        vi_ = {k_: [float(round(x)) if abs(x) != INF else x for x in lst] for k_, lst in v.items()}
                        vi2_ = dict(vi_)
                        vi2_[(f"L{i}", "v_ctrl")] = [INF] * len(vs)
                        a_i = np_step(sv, vi2_, P, integer=True)[0]
                        b_i = np_step(plain, vi_, P, integer=True)[0]
                        st.inc("executions", 2)
                        msg = same_all(b_i, a_i)
                        if msg:
                            report("C18/vsl-infinite-vs-plain/integer-arrays/numpy", f"{sv.short()}: integer caller arrays, L{i} VSL {vs} "
                                   f"with infinite limits vs plain: {msg} at {vl}", dict(case, pair="A5"))
                        neg = {k_: ([-x for x in lst] if k_[1] in ("rho", "v") else list(lst)) for k_, lst in v.items()}
                        neg2 = dict(neg)
                        neg2[(f"L{i}", "v_ctrl")] = [INF] * len(vs)
                        for opt in ("positive_init_speed", "positive_init_density"):
                            a_ = np_step(sv, neg2, P, opts={opt: True})[0]
                            b2_ = np_step(plain, neg, P, opts={opt: True})[0]
                            st.inc("executions", 2)
                            msg = same_all(b2_, a_)
                            if msg:
                                report(f"C18/vsl-infinite-vs-plain/{opt}/numpy", f"{sv.short()}: with {opt} on sign-flipped values, L{i} "
                                       f"VSL {vs} with infinite limits vs plain: {msg} at {vl}", dict(case, pair="A3"))
                    # B: one finite limit
                    for si, seg in enumerate(vs):
                        for lim in LIMITS:
                            st.inc("pairs")
                            vals_f = []
                            for v2 in vals:
                                v3 = dict(v2)
                                lst = [INF] * len(vs)
                                lst[si] = lim
                                v3[(f"L{i}", "v_ctrl")] = lst
                                vals_f.append(v3)
                            fin_out = rv.run(vals_f, lim == LIMITS[0])
                            for (eng, a), (_, b) in zip(fin_out, inf_out):
                                for (vl, _), x, y in zip(pv, a, b):
                                    msg = same_all(x, y, skip={(f"L{i}", "v", seg)})
                                    if msg:
                                        report(f"C18/limit-affects-other-state/{eng}",
                                               f"{sv.short()}: limit {lim} on segment {seg} of L{i}: {msg} (vs infinite limit) at {vl}",
                                               dict(case, pair="B"))
                                        break
                                    xv, yv = x[(f"L{i}", "v")][seg], y[(f"L{i}", "v")][seg]
                                    if xv > yv + 1e-9 * max(1.0, abs(yv)):
                                        report(f"C18/limit-raises-speed/{eng}",
                                               f"{sv.short()}: limit {lim} on segment {seg} of L{i} gives v+ {xv!r} > {yv!r} without limit at {vl}",
                                               dict(case, pair="B"))
                                        break
                except Exception as e:  # noqa: BLE001
                    report(f"C18/exception/{exc_site(e)}/{type(e).__name__}", f"{sv.short()}: {exc_text(e)}", case)
    # ---- C: ramp variants ------------------------------------------------------------------
    for j, o in enumerate(base.origins):
        if o.kind != "ramp_out":
            continue
        k = f"O{o.node}"
        specs = {kind: replace(base, origins=tuple(replace(x, kind=kind) if jj == j else x for jj, x in enumerate(base.origins)))
                 for kind in ("ramp_out", "ramp_in", "simp_lim")}
        case = {"spec": specs["ramp_in"].describe(), "P": P, "pair": "C", "origin": k}
        st.inc("pairs", 2)
        try:
            vecs = other_vectors(specs["ramp_out"], d, [(k, "r")])
            outs = {}
            for kind, sp in specs.items():
                vals = []
                for _, v in vecs:
                    v2 = {kk: x for kk, x in v.items() if kk != (k, "r")}
                    if kind == "simp_lim":
                        v2[(k, "q")] = [INF]
                    else:
                        v2[(k, "r")] = [1.0]
                    vals.append(v2)
                outs[kind] = Runner(sp, P, st).run(vals, True)
            for kind in ("ramp_in", "simp_lim"):
                for (eng, a), (_, b) in zip(outs[kind], outs["ramp_out"]):
                    for (vl, _), x, y in zip(vecs, a, b):
                        msg = same_all(x, y)
                        if msg:
                            report(f"C18/ramp-variants/{kind}/{eng}", f"{base.short()}: {k} as {kind} (neutral control) vs metered "
                                   f"'out' with r=1: {msg} at {vl}", case)
                            break
        except Exception as e:  # noqa: BLE001
            report(f"C18/exception/{exc_site(e)}/{type(e).__name__}", exc_text(e), case)
    # ---- D: mainstream origins ----------------------------------------------------------------
    for j, o in enumerate(base.origins):
        if o.kind != "ideal":
            continue
        k = f"O{o.node}"
        sp = replace(base, origins=tuple(replace(x, kind="main") if jj == j else x for jj, x in enumerate(base.origins)))
        li = sp.out_links(o.node)[0]
        case = {"spec": sp.describe(), "P": P, "pair": "D", "origin": k}
        st.inc("pairs", 2)
        try:
            vecs = other_vectors(sp, d, [(k, "v_ctrl")])
            r = Runner(sp, P, st)
            outs = {}
            for name in ("inf", "huge", "first"):
                vals = []
                for _, v in vecs:
                    v2 = dict(v)
                    v2[(k, "v_ctrl")] = [INF if name == "inf" else (1e6 if name == "huge" else v[(f"L{li}", "v")][0])]
                    vals.append(v2)
                outs[name] = r.run(vals, True)
            for name in ("huge", "first"):
                for (eng, a), (_, b) in zip(outs[name], outs["inf"]):
                    for (vl, _), x, y in zip(vecs, a, b):
                        msg = same_all(x, y)
                        if msg:
                            report(f"C18/mainstream-infinite-limit/{name}/{eng}", f"{sp.short()}: {k} with limit {name} vs infinite: "
                                   f"{msg} at {vl}", case)
                            break
        except Exception as e:  # noqa: BLE001
            report(f"C18/exception/{exc_site(e)}/{type(e).__name__}", exc_text(e), case)
    return problems


def worker(item):
    plan, shs = item
    st = Stats()
    for shape in shs:
        st.inc("states")
        problems = check_shape(shape, st, plan)
        st.outcome((shape[0], len(shape[1]), len(problems) == 0))
        if len(st.samples) < 1 and len(shape[1]) >= 3:
            st.sample({"shape": {"n": shape[0], "edges": shape[1], "classes": shape[2]},
                       "pairs": "A/B for every link x N in 1..3 x VSL set; C for every ramp; D for every non-ramp origin"})
        for sig, msg, case in problems:
            st.violation(sig, msg, case)
    return st


def explore(tier, seed, nproc):
    pal = (seed + 1) % 3
    if tier == "quick":
        jobs = [({"pset": 0, "d": 1, "pal": pal}, list(shapes(3, 3)))]
        bounds = {"shapes": "(n,m)<=(3,3)", "value_deviation": 1, "palette": pal}
    else:
        s34 = list(shapes(3, 4))
        s44 = [s for s in shapes(4, 4) if s[0] == 4]
        jobs = [({"pset": 0, "d": 1, "pal": pal}, s34 + s44), ({"pset": 1, "d": 2, "pal": (pal + 1) % 3}, list(shapes(3, 2)))]
        bounds = {"shapes": "(3,4) and 4-node (4,4) with single excursions; (3,2) with pair excursions", "palette": pal}
    st = Stats()
    n = 0
    for plan, shs in jobs:
        n += len(shs)
        st.merge(run_shards(worker, [(plan, sh) for sh in shards_of(shs, nproc * 6)], nproc))
    cov = {"bounds": bounds, "shapes": n, "finite_limits": LIMITS,
           "rule": "a state is one shape; for it every controlled-vs-neutral pair of configurations (counter `pairs`) is built "
                   "through the real API and evaluated on every vector with NumPy and the compiled SX function"}
    assumptions = ["tolerance 1e-12 for equalities, 1e-9 slack for the monotonicity inequality",
                   "the controlled element is the only deviation from the base configuration of the shape"]
    return st, cov, assumptions


def replay(case):
    # replays re-run the whole shape of the stored spec's family: find the shape by topology
    spec = NetSpec.from_json(case["spec"])
    edges = tuple(sorted((l.u, l.v) for l in spec.links))
    st = Stats()
    P = case["P"]
    plan = {"pset": MODEL_PARAMS.index(P) if P in MODEL_PARAMS else 0, "d": 1, "pal": 0}
    problems = []
    for pal in (0, 1, 2):
        plan["pal"] = pal
        for sh in shapes(4, 5):
            if sh[0] == spec.n and tuple(sorted(sh[1])) == edges:
                problems += check_shape(sh, st, plan)
        if problems:
            break
    lines = [f"shape of {spec.short()}"] + [f"  {s}: {m}" for s, m, c in problems[:20]]
    return lines, bool(problems)
