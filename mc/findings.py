"""Known findings file (/verif/known_findings.json): read-only at run time.

Entries: {"property", "status": "finding"|"fixed", "signature", "what", "commit"?}.
A `finding` entry suppresses exactly the violations whose signature equals (or starts
with, when the entry's signature ends in '*') its signature; a `fixed` entry suppresses
nothing.
"""
import json
import os

from .env import VERIF

PATH = os.path.join(VERIF, "known_findings.json")


def load():
    if not os.path.exists(PATH):
        return []
    with open(PATH) as f:
        return json.load(f)["entries"]


def match(entries, prop, signature):
    for e in entries:
        if e.get("property") != prop or e.get("status") != "finding":
            continue
        s = e["signature"]
        if s == signature or (s.endswith("*") and signature.startswith(s[:-1])):
            return e
    return None
