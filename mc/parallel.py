"""Shard a finite enumeration over worker processes (fork once, never per execution)."""
from __future__ import annotations

import multiprocessing as mp
import time

from .core import Stats

_FUNC = None


def _call(arg):
    idx, item = arg
    return idx, _FUNC(item)


def run_shards(func, items, nproc: int) -> Stats:
    """func(item) -> Stats, executed for every item; results merged in item order."""
    global _FUNC
    items = list(items)
    total = Stats()
    if not items:
        return total
    if nproc <= 1 or len(items) == 1:
        for it in items:
            total.merge(func(it))
        return total
    _FUNC = func
    ctx = mp.get_context("fork")
    with ctx.Pool(min(nproc, len(items))) as pool:
        res = pool.map(_call, list(enumerate(items)), chunksize=1)
    res.sort(key=lambda r: r[0])
    for _, st in res:
        total.merge(st)
    return total


def shards_of(seq, n):
    """Split a list into n interleaved shards (balanced when cost varies smoothly)."""
    seq = list(seq)
    n = max(1, min(n, len(seq)))
    return [seq[i::n] for i in range(n)]
