"""Shard a finite enumeration over worker processes (fork once, never per execution)."""
from __future__ import annotations

import multiprocessing as mp
import time

from .core import Stats

_FUNC = None


def crash_stats(func, e):
    """An exception that escaped a worker (the checks catch what they expect): reported as a violation of the
    check's property rather than as a crash of the check, with the library call site in the signature."""
    from .core import exc_site, exc_text

    prop = func.__module__.rsplit(".", 1)[-1].upper()
    st = Stats()
    st.inc("states")
    st.inc("transitions")
    st.violation(f"{prop}/unhandled-exception/{exc_site(e)}/{type(e).__name__}",
                 f"unexpected exception while exploring: {exc_text(e)}", {"unhandled": True, "error": exc_text(e)})
    return st


def _call(arg):
    idx, item = arg
    try:
        return idx, _FUNC(item)
    except Exception as e:  # noqa: BLE001
        return idx, crash_stats(_FUNC, e)


def run_shards(func, items, nproc: int) -> Stats:
    """func(item) -> Stats, executed for every item; results merged in item order."""
    global _FUNC
    items = list(items)
    total = Stats()
    if not items:
        return total
    if nproc <= 1 or len(items) == 1:
        for it in items:
            try:
                total.merge(func(it))
            except Exception as e:  # noqa: BLE001
                total.merge(crash_stats(func, e))
        return total
    _FUNC = func
    ctx = mp.get_context("fork")
    with ctx.Pool(min(nproc, len(items))) as pool:
        res = pool.map(_call, list(enumerate(items)), chunksize=1)
    res.sort(key=lambda r: r[0])
    for _, st in res:
        total.merge(st)
    return total


def shards_of(seq, n):
    """Split a list into n interleaved shards (balanced when cost varies smoothly)."""
    seq = list(seq)
    n = max(1, min(n, len(seq)))
    return [seq[i::n] for i in range(n)]
