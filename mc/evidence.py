"""Writes /verif/evidence/<id>.json (EVIDENCE.schema.json) and validates it."""
import json
import os
import shutil
import subprocess

from .core import jsonable
from .env import VERIF

SCHEMA = "/root/.vp/EVIDENCE.schema.json"


def evidence_dir():
    """/verif/evidence for runs against /repo; runs against a scratch copy (VERIF_SRC_ROOT set to
    something else, used for seeded-change experiments) write under /verif/scratch instead."""
    from .env import SRC_ROOT

    if SRC_ROOT == "/repo":
        return os.path.join(VERIF, "evidence")
    return os.path.join(VERIF, "scratch", "evidence")


def write(prop, tier, seed, coverage, assumptions, wall_s, violations):
    os.makedirs(evidence_dir(), exist_ok=True)
    path = os.path.join(evidence_dir(), f"{prop}.json")
    doc = {
        "property_id": prop,
        "tier": tier,
        "seed": seed,
        "level": "model_checking",
        "coverage": jsonable(coverage),
        "assumptions": list(assumptions),
        "wall_s": round(wall_s, 3),
        "violations": violations,
    }
    tmp = path + ".tmp"
    with open(tmp, "w") as f:
        json.dump(doc, f, indent=1, sort_keys=True)
        f.write("\n")
    os.replace(tmp, path)
    return path


def validate(path):
    """Validate with jsonschema under python3-vt when both are present; else structural."""
    vt = shutil.which("python3-vt")
    if vt and os.path.exists(SCHEMA):
        code = (
            "import json,sys,jsonschema;"
            "jsonschema.validate(json.load(open(sys.argv[1])),json.load(open(sys.argv[2])))"
        )
        r = subprocess.run([vt, "-c", code, path, SCHEMA], capture_output=True, text=True)
        if r.returncode != 0:
            return False, r.stderr.strip().splitlines()[-1] if r.stderr.strip() else "invalid"
        return True, "jsonschema"
    doc = json.load(open(path))
    cov = doc.get("coverage", {})
    ok = all(k in doc for k in ("property_id", "tier", "seed", "level", "coverage", "wall_s"))
    ok = ok and cov.get("states", 0) >= 1 and cov.get("transitions", 0) >= 1 and cov.get("samples")
    return bool(ok), "structural"
