"""Enumeration of network programs: all valid shapes up to isomorphism within (n, m), and
their expansion into configurations (element kinds, segment counts, VSL sets) within a
deviation bound, with parameter palettes."""
from __future__ import annotations

import itertools
from dataclasses import replace
from functools import lru_cache

from .spec import DestS, LinkS, NetSpec, OriginS, spec_valid

# origin classes of a shape: 0 none, 1 non-ramp (ideal/mainstream), 2 ramp (metered/simplified)


def _node_choices(indeg, outdeg):
    """(origin classes, dest flags) allowed by the nine conditions for one node."""
    if indeg == 0 and outdeg == 0:
        return None
    if indeg == 0:
        if outdeg != 1:
            return None
        return [(1, 0), (2, 0)]
    if outdeg == 0:
        if indeg != 1:
            return None
        return [(0, 1)]
    if outdeg == 1:
        return [(0, 0), (2, 0)]
    return [(0, 0)]


def _canon(n, edges, cls):
    best = None
    for perm in itertools.permutations(range(n)):
        e = tuple(sorted((perm[u], perm[v]) for u, v in edges))
        c = [None] * n
        for i in range(n):
            c[perm[i]] = cls[i]
        key = (e, tuple(c))
        if best is None or key < best:
            best = key
    return best


@lru_cache(maxsize=None)
def shapes(nmax: int, mmax: int):
    """All valid shapes (n, edges, classes) with n <= nmax nodes and <= mmax links, one
    representative per isomorphism class, ordered simplest-first.  Disconnected shapes are
    included (they are valid)."""
    out = []
    seen = set()
    for n in range(1, nmax + 1):
        pairs = [(u, v) for u in range(n) for v in range(n)]
        for m in range(1, mmax + 1):
            for edges in itertools.combinations(pairs, m):
                indeg = [0] * n
                outdeg = [0] * n
                for u, v in edges:
                    outdeg[u] += 1
                    indeg[v] += 1
                ch = [_node_choices(indeg[i], outdeg[i]) for i in range(n)]
                if any(c is None for c in ch):
                    continue
                for cls in itertools.product(*ch):
                    key = (n,) + _canon(n, edges, cls)
                    if key in seen:
                        continue
                    seen.add(key)
                    out.append((n, key[1], key[2]))
    out.sort(key=lambda s: (s[0], len(s[1]), s[1], s[2]))
    return tuple(out)


# ---------------------------------------------------------------------------------------
# palettes: the concrete numbers behind a shape (per-link distinct parameters)
# ---------------------------------------------------------------------------------------
PALETTES = [
    dict(lam=[2, 3, 1, 4, 2], L=[1.0, 0.8, 1.3, 0.6, 1.5], beta=[1.0, 3.0, 0.5, 2.0, 1.5],
         rho_crit=[33.5, 30.0, 36.0, 28.0, 38.0], v_free=[102.0, 110.0, 95.0, 120.0, 100.0],
         a=[1.867, 2.1, 1.6, 1.9, 2.3], rho_max=[180.0, 170.0, 190.0, 160.0, 200.0],
         C=[2000.0, 1500.0, 2500.0, 1800.0], alpha=[0.1, 0.0, 0.2, 0.05, 0.15]),
    dict(lam=[3, 2, 2, 1, 4], L=[0.7, 1.2, 1.0, 1.4, 0.9], beta=[0.4, 0.6, 1.0, 0.25, 3.0],
         rho_crit=[30.0, 35.0, 32.0, 37.0, 29.0], v_free=[115.0, 100.0, 108.0, 90.0, 125.0],
         a=[2.0, 1.7, 2.2, 1.8, 1.5], rho_max=[175.0, 185.0, 165.0, 195.0, 180.0],
         C=[1800.0, 2200.0, 1600.0, 2400.0], alpha=[0.0, 0.1, 0.1, 0.2, 0.05]),
    dict(lam=[1, 2, 3, 2, 1], L=[1.1, 0.9, 0.75, 1.25, 1.0], beta=[2.0, 1.0, 4.0, 0.5, 1.0],
         rho_crit=[36.0, 31.0, 34.0, 30.0, 33.0], v_free=[98.0, 105.0, 112.0, 101.0, 94.0],
         a=[1.75, 1.95, 2.05, 1.65, 2.15], rho_max=[190.0, 160.0, 180.0, 170.0, 185.0],
         C=[2500.0, 1700.0, 2100.0, 1900.0], alpha=[0.15, 0.05, 0.0, 0.1, 0.2]),
]

MODEL_PARAMS = [
    dict(T=10 / 3600, tau=18 / 3600, eta=60.0, kappa=40.0, delta=0.0122, phi=1.8),
    dict(T=10 / 3600, tau=18 / 3600, eta=60.0, kappa=40.0),
    dict(T=8 / 3600, tau=20 / 3600, eta=55.0, kappa=35.0, delta=0.02),
    dict(T=12 / 3600, tau=16 / 3600, eta=65.0, kappa=45.0, phi=2.2),
]


def base_spec(shape, palette: int = 0) -> NetSpec:
    """Base configuration: every non-ramp origin ideal, every ramp metered 'out', every
    destination congestion-free, every link 2 segments and no VSL."""
    n, edges, cls = shape
    P = PALETTES[palette % len(PALETTES)]
    links = []
    for i, (u, v) in enumerate(edges):
        j = i % 5
        links.append(LinkS(u, v, 2, P["lam"][j], P["L"][j], P["rho_max"][j], P["rho_crit"][j], P["v_free"][j],
                           P["a"][j], P["beta"][j], None, P["alpha"][j]))
    origins, dests = [], []
    for node, (oc, dc) in enumerate(cls):
        if oc == 1:
            origins.append(OriginS(node, "ideal", P["C"][node % 4]))
        elif oc == 2:
            origins.append(OriginS(node, "ramp_out", P["C"][node % 4]))
        if dc:
            dests.append(DestS(node, "free"))
    return NetSpec(n, tuple(links), tuple(origins), tuple(dests))


def vsl_options(N):
    opts = [(0,), (N - 1,), tuple(range(N)), ()]
    if N >= 3:
        opts.append((0, N - 1))  # a set with a gap: an unlimited segment between two limited ones
    out = []
    for o in opts:
        if o not in out:
            out.append(o)
    return out


def deviations(spec: NetSpec):
    """List of single-ELEMENT deviations: (slot id, deviation).  A link deviates in its (segment count,
    VSL set) jointly - every combination of N in 1..3 with no VSL / first / last / all / empty set - so that
    interactions inside one element (e.g. one segment AND an empty VSL set) are within c = 1."""
    devs = []
    for i, l in enumerate(spec.links):
        for N in (1, 2, 3):
            for vs in [None] + vsl_options(N):
                if (N, vs) != (l.N, l.vsl):
                    devs.append((("L", i), ("link", i, N, vs)))
    for j, o in enumerate(spec.origins):
        alts = ("main",) if o.kind == "ideal" else ("ramp_in", "simp_lim", "simp_unl")
        for k in alts:
            devs.append((("O", j), ("okind", j, k)))
    for j, d in enumerate(spec.dests):
        devs.append((("D", j), ("dkind", j, "cong")))
    return devs


def apply_dev(spec: NetSpec, dev) -> NetSpec:
    what = dev[0]
    if what == "link":
        _, i, N, vs = dev
        links = list(spec.links)
        links[i] = replace(spec.links[i], N=N, vsl=vs)
        return replace(spec, links=tuple(links))
    if what == "okind":
        _, j, k = dev
        os_ = list(spec.origins)
        os_[j] = replace(os_[j], kind=k)
        return replace(spec, origins=tuple(os_))
    if what == "dkind":
        _, j, k = dev
        ds = list(spec.dests)
        ds[j] = replace(ds[j], kind=k)
        return replace(spec, dests=tuple(ds))
    raise ValueError(dev)


def uniform_configs(spec: NetSpec):
    """Configurations in which one attribute family is switched everywhere at once."""
    out = []

    def allo(kind_nonramp, kind_ramp):
        return replace(spec, origins=tuple(
            replace(o, kind=(kind_nonramp if o.kind in ("ideal", "main") else kind_ramp)) for o in spec.origins))

    out.append(("all-main/ramp_in", allo("main", "ramp_in")))
    out.append(("all-main/simp_lim", allo("main", "simp_lim")))
    out.append(("all-ideal/simp_unl", allo("ideal", "simp_unl")))
    out.append(("all-cong", replace(spec, dests=tuple(replace(d, kind="cong") for d in spec.dests))))
    for N in (1, 3):
        out.append((f"all-N{N}", replace(spec, links=tuple(replace(l, N=N) for l in spec.links))))
    out.append(("all-vsl", replace(spec, links=tuple(replace(l, vsl=tuple(range(l.N))) for l in spec.links))))
    out.append(("all-N1-vsl-empty", replace(spec, links=tuple(replace(l, N=1, vsl=()) for l in spec.links))))
    out.append(("all-N1-vsl", replace(spec, links=tuple(replace(l, N=1, vsl=(0,)) for l in spec.links))))
    out.append(("all-N3-vsl-mid", replace(spec, links=tuple(replace(l, N=3, vsl=(1,)) for l in spec.links))))
    mixed = replace(
        spec,
        links=tuple(replace(l, N=(1, 3, 2)[i % 3], vsl=((0,) if i % 2 == 0 else None)) for i, l in enumerate(spec.links)),
        origins=tuple(replace(o, kind=("main" if o.kind == "ideal" else ("ramp_in", "simp_lim", "ramp_out")[j % 3]))
                      for j, o in enumerate(spec.origins)),
        dests=tuple(replace(d, kind="cong") for d in spec.dests))
    out.append(("mixed", mixed))
    return out


def configurations(shape, c: int, palette: int = 0, uniform: bool = True):
    """All configurations of a shape with <= c deviating slots (plus the uniform ones).
    Yields (label, NetSpec); duplicates removed."""
    base = base_spec(shape, palette)
    seen = set()

    def emit(label, s):
        if s in seen:
            return None
        seen.add(s)
        return (label, s)

    r = emit("base", base)
    if r:
        yield r
    devs = deviations(base)
    if c >= 1:
        for slot, dev in devs:
            r = emit(f"dev:{dev}", apply_dev(base, dev))
            if r:
                yield r
    if uniform:
        for label, s in uniform_configs(base):
            r = emit(label, s)
            if r:
                yield r
    if c >= 2:
        for (s1, d1), (s2, d2) in itertools.combinations(devs, 2):
            if s1 == s2:
                continue
            s = apply_dev(apply_dev(base, d1), d2)
            r = emit(f"dev:{d1}+{d2}", s)
            if r:
                yield r


def all_specs(nmax, mmax, c, palette=0, uniform=True):
    for shape in shapes(nmax, mmax):
        for label, s in configurations(shape, c, palette, uniform):
            assert spec_valid(s), (shape, label)
            yield shape, label, s


# A fixed list of harness networks containing every neighbourhood type (used by checks whose
# per-network cost is high): chain, merge 2->1, bifurcation 1->2, 2->2 node, interior ramp,
# ramp at a source, self-loop, 2-cycle, single-segment links, all element kinds.
def harness_specs(palette=0):
    P = PALETTES[palette % len(PALETTES)]

    def L(i, u, v, N=2, vsl=None):
        j = i % 5
        return LinkS(u, v, N, P["lam"][j], P["L"][j], P["rho_max"][j], P["rho_crit"][j], P["v_free"][j], P["a"][j],
                     P["beta"][j], vsl, P["alpha"][j])

    C = P["C"]
    H = {}
    H["chain"] = NetSpec(3, (L(0, 0, 1, 3, (0, 2)), L(1, 1, 2, 2)), (OriginS(0, "main", C[0]), OriginS(1, "ramp_out", C[1])),
                         (DestS(2, "cong"),))
    H["merge"] = NetSpec(4, (L(0, 0, 2, 2), L(1, 1, 2, 1), L(2, 2, 3, 2, (1,))),
                         (OriginS(0, "ideal", C[0]), OriginS(1, "simp_lim", C[1])), (DestS(3, "free"),))
    H["bifurcation"] = NetSpec(4, (L(0, 0, 1, 2), L(1, 1, 2, 2), L(2, 1, 3, 3)),
                               (OriginS(0, "ramp_in", C[0]),), (DestS(2, "cong"), DestS(3, "free")))
    H["twobytwo"] = NetSpec(5, (L(0, 0, 2, 2), L(1, 1, 2, 2), L(2, 2, 3, 1), L(3, 2, 4, 2)),
                            (OriginS(0, "main", C[0]), OriginS(1, "simp_unl", C[1])), (DestS(3, "free"), DestS(4, "cong")))
    H["loop"] = NetSpec(1, (L(0, 0, 0, 3),), (), ())
    H["cycle_ramp"] = NetSpec(2, (L(0, 0, 1, 2), L(1, 1, 0, 1)), (OriginS(0, "ramp_out", C[0]),), ())
    H["srcramp"] = NetSpec(2, (L(0, 0, 1, 1, (0,)),), (OriginS(0, "ramp_out", C[0]),), (DestS(1, "free"),))
    # every ramp kind also at an interior node (one entering link) and at a merge node (two entering links)
    H["interior_ramps"] = NetSpec(4, (L(0, 0, 1, 2), L(1, 1, 2, 1), L(2, 2, 3, 2)),
                                  (OriginS(0, "main", C[0]), OriginS(1, "ramp_in", C[1]), OriginS(2, "simp_unl", C[2])),
                                  (DestS(3, "cong"),))
    H["merge_ramp"] = NetSpec(4, (L(0, 0, 2, 2), L(1, 1, 2, 2), L(2, 2, 3, 3, (0, 2))),
                              (OriginS(0, "ideal", C[0]), OriginS(1, "simp_lim", C[1]), OriginS(2, "simp_unl", C[2])),
                              (DestS(3, "free"),))
    # long links: more than 10 segments (and VSL signs on two-digit segment indices)
    H["long"] = NetSpec(3, (L(0, 0, 1, 12, (1, 8, 11)), L(1, 1, 2, 11)), (OriginS(0, "main", C[0]), OriginS(1, "ramp_out", C[1])),
                        (DestS(2, "cong"),))
    # larger structures: three leaving links / three entering links (plus a ramp) with different segment counts, and two
    # parallel paths that split and merge again
    H["tri_split"] = NetSpec(5, (L(0, 0, 1, 2), L(1, 1, 2, 2), L(2, 1, 3, 3), L(3, 1, 4, 1)),
                             (OriginS(0, "main", C[0]),), (DestS(2, "cong"), DestS(3, "free"), DestS(4, "free")))
    H["tri_merge"] = NetSpec(5, (L(0, 0, 3, 3), L(1, 1, 3, 3, (0, 2)), L(2, 2, 3, 1), L(3, 3, 4, 2)),
                             (OriginS(0, "ideal", C[0]), OriginS(1, "main", C[1]), OriginS(2, "ramp_out", C[2]),
                              OriginS(3, "ramp_in", C[0])), (DestS(4, "cong"),))
    H["diamond"] = NetSpec(6, (L(0, 0, 1, 1), L(1, 1, 2, 2), L(2, 1, 3, 3), L(3, 2, 4, 3), L(4, 3, 4, 1), L(0, 4, 5, 2)),
                           (OriginS(0, "ramp_out", C[0]),), (DestS(5, "free"),))
    for k, s in H.items():
        assert spec_valid(s), k
    return H
