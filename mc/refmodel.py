"""Reference METANET model (Hegyi 2004, eqs. 3.1-3.11 and the node rules of 3.2.2, plus the
library's documented boundary laws).  Plain Python floats, one loop per link and segment,
no import of sym_metanet.  Also derives the allowed-dependency relation of C10."""
from __future__ import annotations

import math

from .spec import NetSpec, RAMP_KINDS

INF = float("inf")
GUARD = 0.05  # documented numerical guard of the mainstream-origin flow


def Veq(rho, vf, rc, a):
    return vf * math.exp(-(1.0 / a) * (rho / rc) ** a)


class RefOut:
    __slots__ = ("nxt", "qo", "q", "q0", "v0", "rho_dn", "skip", "branches", "undefined")

    def __init__(self):
        self.nxt = {}
        self.qo = {}
        self.q = {}
        self.q0 = {}
        self.v0 = {}
        self.rho_dn = {}
        self.skip = {}  # (key, var, idx) -> reason
        self.branches = set()
        self.undefined = set()  # reasons of 0/0 encountered


def origin_flow(spec: NetSpec, o, val, T, out: RefOut):
    li = spec.out_links(o.node)[0]
    l = spec.links[li]
    k = f"O{o.node}"
    rho1 = val[(f"L{li}", "rho")][0]
    v1 = val[(f"L{li}", "v")][0]
    if o.kind == "ideal":
        return rho1 * v1 * l.lam
    d = val[(k, "d")][0]
    w = val[(k, "w")][0]
    dem = d + w / T
    if o.kind == "main":
        vc = val[(k, "v_ctrl")][0]
        vlim = min(vc, v1)
        out.branches.add(("main.vlim", "ctrl" if vc < v1 else "first"))
        Vc = Veq(l.rho_crit, l.v_free, l.rho_crit, l.a)
        if vlim < 0:  # outside the admissible domain: the law is not defined, nothing is compared
            out.skip[(k, "w", 0)] = "inadmissible-negative-speed"
            out.skip[(f"L{li}", "rho", 0)] = "inadmissible-negative-speed"
        if vlim < Vc:
            ratio = vlim / l.v_free
            if 0 < ratio < GUARD:
                out.skip[(k, "w", 0)] = "mainstream-guard"
                out.skip[(f"L{li}", "rho", 0)] = "mainstream-guard"
                out.branches.add(("main.qlim", "guard"))
                ratio = GUARD  # what both engines are documented to do; not compared by C01
            if vlim <= 0:
                qlim = 0.0
                out.branches.add(("main.qlim", "zero-speed"))
            else:
                qlim = l.lam * vlim * l.rho_crit * (-l.a * math.log(ratio)) ** (1.0 / l.a)
                out.branches.add(("main.qlim", "speed"))
        else:
            qlim = l.lam * Vc * l.rho_crit
            out.branches.add(("main.qlim", "capacity"))
        out.branches.add(("main.q", "demand" if dem <= qlim else "limit"))
        return min(dem, qlim)
    space = (l.rho_max - rho1) / (l.rho_max - l.rho_crit)
    if o.kind == "ramp_out":
        r = val[(k, "r")][0]
        cap = o.C * min(1.0, space)
        out.branches.add(("ramp_out.space", "1" if 1.0 <= space else "space"))
        out.branches.add(("ramp_out.q", "demand" if dem <= cap else "cap"))
        return r * min(dem, cap)
    if o.kind == "ramp_in":
        r = val[(k, "r")][0]
        cap = o.C * min(r, space)
        out.branches.add(("ramp_in.space", "r" if r <= space else "space"))
        out.branches.add(("ramp_in.q", "demand" if dem <= cap else "cap"))
        return min(dem, cap)
    if o.kind == "simp_lim":
        qd = val[(k, "q")][0]
        cap = o.C * min(1.0, space)
        m = min(qd, dem, cap)
        out.branches.add(("simp_lim.q", "des" if m == qd else ("demand" if m == dem else "cap")))
        return m
    if o.kind == "simp_unl":
        return val[(k, "q")][0]
    raise ValueError(o.kind)


def step(spec: NetSpec, val: dict, P: dict) -> RefOut:
    """val: {(key, var): [floats]}; P: T, tau, eta, kappa and optionally delta, phi."""
    T, tau, eta, kappa = P["T"], P["tau"], P["eta"], P["kappa"]
    delta, phi = P.get("delta"), P.get("phi")
    out = RefOut()
    links = spec.links
    # origin flows and queues
    for o in spec.origins:
        k = f"O{o.node}"
        qo = origin_flow(spec, o, val, T, out)
        out.qo[k] = qo
        if o.kind != "ideal":
            out.nxt[(k, "w")] = [val[(k, "w")][0] + T * (val[(k, "d")][0] - qo)]
    # segment flows (3.1)
    for i, l in enumerate(links):
        rho, v = val[(f"L{i}", "rho")], val[(f"L{i}", "v")]
        out.q[f"L{i}"] = [rho[j] * v[j] * l.lam for j in range(l.N)]
    for i, l in enumerate(links):
        key = f"L{i}"
        rho, v, q = val[(key, "rho")], val[(key, "v")], out.q[key]
        N = l.N
        # ---- upstream node ------------------------------------------------------
        n = l.u
        ins, outs = spec.in_links(n), spec.out_links(n)
        org = spec.origin_at(n)
        Qin = sum(out.q[f"L{m}"][-1] for m in ins)
        if org is not None:
            Qin += out.qo[f"O{n}"]
        share = l.beta / sum(links[m].beta for m in outs)
        q0 = share * Qin
        skip_v0 = None
        if ins:
            if len(ins) == 1:
                v0 = val[(f"L{ins[0]}", "v")][-1]
            else:
                den = sum(out.q[f"L{m}"][-1] for m in ins)
                if den == 0:
                    v0 = float("nan")
                    skip_v0 = "merge-zero-inflow"
                    out.undefined.add(skip_v0)
                else:
                    v0 = sum(val[(f"L{m}", "v")][-1] * out.q[f"L{m}"][-1] for m in ins) / den
        else:
            v0 = v[0]
        out.q0[key], out.v0[key] = q0, v0
        # ---- downstream node ----------------------------------------------------
        n2 = l.v
        dst = spec.dest_at(n2)
        skip_dn = None
        if dst is not None:
            base = min(rho[-1], l.rho_crit)
            out.branches.add(("dest.min", "rho" if rho[-1] <= l.rho_crit else "crit"))
            if dst.kind == "free":
                rdn = base
            else:
                dd = val[(f"D{n2}", "d")][0]
                rdn = max(base, dd)
                out.branches.add(("dest.max", "scenario" if dd >= base else "link"))
        else:
            outs2 = spec.out_links(n2)
            if len(outs2) == 1:
                rdn = val[(f"L{outs2[0]}", "rho")][0]
            else:
                den = sum(val[(f"L{m}", "rho")][0] for m in outs2)
                if den == 0:
                    rdn = float("nan")
                    skip_dn = "bifurcation-zero-density"
                    out.undefined.add(skip_dn)
                else:
                    rdn = sum(val[(f"L{m}", "rho")][0] ** 2 for m in outs2) / den
        out.rho_dn[key] = rdn
        # ---- segments ------------------------------------------------------------
        rn, vn = [], []
        for j in range(N):
            qup = q0 if j == 0 else q[j - 1]
            vup = v0 if j == 0 else v[j - 1]
            rd = rdn if j == N - 1 else rho[j + 1]
            rn.append(rho[j] + T / (l.lam * l.L) * (qup - q[j]))
            V = Veq(rho[j], l.v_free, l.rho_crit, l.a)
            if l.vsl is not None and j in l.vsl:
                lim = (1.0 + l.alpha) * val[(key, "v_ctrl")][l.vsl.index(j)]
                out.branches.add(("vsl.min", "limit" if lim < V else "Veq"))
                V = min(V, lim)
            x = (v[j] + T / tau * (V - v[j]) + T / l.L * v[j] * (vup - v[j])
                 - eta * T / (tau * l.L) * (rd - rho[j]) / (rho[j] + kappa))
            if j == 0 and delta is not None and org is not None and org.kind in RAMP_KINDS and ins:
                x -= delta * T * out.qo[f"O{n}"] * v[0] / (l.L * l.lam * (rho[0] + kappa))
                out.branches.add(("merging", "applied"))
            if j == N - 1 and phi is not None and dst is None and len(spec.out_links(n2)) == 1:
                dl = l.lam - links[spec.out_links(n2)[0]].lam
                if dl != 0:
                    x -= phi * T * dl * rho[j] * v[j] ** 2 / (l.L * l.lam * l.rho_crit)
                    out.branches.add(("lanedrop", "drop" if dl > 0 else "gain"))
                    if dl < 0:
                        out.skip[(key, "v", j)] = "lane-gain-undefined"
            if j == 0 and skip_v0:
                out.skip[(key, "v", 0)] = skip_v0
            if j == N - 1 and skip_dn:
                out.skip[(key, "v", j)] = skip_dn
            vn.append(x)
        out.nxt[(key, "rho")] = rn
        out.nxt[(key, "v")] = vn
    return out


# ---------------------------------------------------------------------------------------
# C10: the allowed-neighbour relation, from the spec alone
# ---------------------------------------------------------------------------------------
def origin_inputs(spec: NetSpec, o):
    """Scalars the flow of origin o may depend on."""
    li = spec.out_links(o.node)[0]
    k = f"O{o.node}"
    L = f"L{li}"
    if o.kind == "ideal":
        return {(L, "rho", 0), (L, "v", 0)}
    s = {(k, "w", 0), (k, "d", 0)}
    if o.kind == "main":
        s |= {(k, "v_ctrl", 0), (L, "v", 0)}
    elif o.kind in ("ramp_out", "ramp_in"):
        s |= {(k, "r", 0), (L, "rho", 0)}
    elif o.kind == "simp_lim":
        s |= {(k, "q", 0), (L, "rho", 0)}
    else:  # simp_unl: the desired flow is the flow
        s = {(k, "q", 0)}
    return s


def allowed_dependencies(spec: NetSpec, delta_given=True, phi_given=True):
    """{(key, var, idx) of an output: set of (key, var, idx) of inputs it may depend on}."""
    A = {}
    links = spec.links
    for o in spec.origins:
        if o.kind == "ideal":
            continue
        k = f"O{o.node}"
        A[(k, "w", 0)] = {(k, "w", 0), (k, "d", 0)} | origin_inputs(spec, o)
    for i, l in enumerate(links):
        key = f"L{i}"
        N = l.N
        ins = spec.in_links(l.u)
        org = spec.origin_at(l.u)
        inflow = set()
        for m in ins:
            inflow |= {(f"L{m}", "rho", links[m].N - 1), (f"L{m}", "v", links[m].N - 1)}
        if org is not None:
            inflow |= origin_inputs(spec, org)
        upspeed = set()
        if ins:
            for m in ins:
                upspeed |= {(f"L{m}", "v", links[m].N - 1)}
                if len(ins) > 1:
                    upspeed |= {(f"L{m}", "rho", links[m].N - 1)}
        else:
            upspeed = {(key, "v", 0)}
        dst = spec.dest_at(l.v)
        if dst is not None:
            down = {(key, "rho", N - 1)}
            if dst.kind == "cong":
                down |= {(f"D{l.v}", "d", 0)}
        else:
            down = {(f"L{m}", "rho", 0) for m in spec.out_links(l.v)}
        for j in range(N):
            own = {(key, "rho", j), (key, "v", j)}
            up = inflow if j == 0 else {(key, "rho", j - 1), (key, "v", j - 1)}
            A[(key, "rho", j)] = own | up
            s = set(own)
            s |= upspeed if j == 0 else {(key, "v", j - 1)}
            s |= down if j == N - 1 else {(key, "rho", j + 1)}
            if l.vsl is not None and j in l.vsl:
                s.add((key, "v_ctrl", l.vsl.index(j)))
            if j == 0 and delta_given and org is not None and org.kind in RAMP_KINDS and ins:
                s |= origin_inputs(spec, org)
            A[(key, "v", j)] = s
    return A
