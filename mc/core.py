"""Shared bookkeeping of the explorers: counters, distinct outcomes, samples, violations.

A `Stats` object is what one worker returns for one shard; `Stats.merge` adds them up in
the parent.  Everything in it is measured, nothing is a constant.
"""
from __future__ import annotations

import hashlib
import json
import time
import traceback

MAX_PER_SIG = 3  # violations kept (with replay) per signature
MAX_SIGS = 40  # distinct signatures kept
MAX_OUTCOMES = 5000  # distinct observed outcomes remembered exactly


def jsonable(x):
    import numpy as np

    if isinstance(x, dict):
        return {str(k): jsonable(v) for k, v in x.items()}
    if isinstance(x, (list, tuple, set, frozenset)):
        return [jsonable(v) for v in x]
    if isinstance(x, np.ndarray):
        return jsonable(x.tolist())
    if isinstance(x, (np.floating,)):
        x = float(x)
    if isinstance(x, (np.integer,)):
        return int(x)
    if isinstance(x, float):
        if x != x:
            return "nan"
        if x in (float("inf"), float("-inf")):
            return "inf" if x > 0 else "-inf"
        return x
    if isinstance(x, (int, str, bool)) or x is None:
        return x
    return repr(x)


class Violation:
    __slots__ = ("signature", "message", "case")

    def __init__(self, signature: str, message: str, case: dict):
        self.signature = signature
        self.message = message
        self.case = case

    def to_dict(self):
        return {"signature": self.signature, "message": self.message, "case": jsonable(self.case)}


class Stats:
    def __init__(self):
        self.c: dict[str, int] = {}
        self.outcomes: set = set()
        self.outcomes_overflow = 0
        self.samples: list = []
        self.violations: dict[str, list[Violation]] = {}
        self.n_violations = 0
        self.sig_counts: dict[str, int] = {}
        self.capped = False
        self.sets: dict[str, set] = {}

    # counters -----------------------------------------------------------------
    def inc(self, key: str, n: int = 1):
        self.c[key] = self.c.get(key, 0) + n

    def add_to(self, key: str, item):
        self.sets.setdefault(key, set()).add(item)

    def outcome(self, o):
        if len(self.outcomes) < MAX_OUTCOMES:
            self.outcomes.add(o)
        elif o not in self.outcomes:
            self.outcomes_overflow += 1

    def sample(self, s, cap=4):
        if len(self.samples) < cap:
            self.samples.append(jsonable(s))

    def violation(self, signature: str, message: str, case: dict):
        self.n_violations += 1
        self.sig_counts[signature] = self.sig_counts.get(signature, 0) + 1
        lst = self.violations.get(signature)
        if lst is None:
            if len(self.violations) >= MAX_SIGS:
                return
            lst = self.violations[signature] = []
        if len(lst) < MAX_PER_SIG:
            lst.append(Violation(signature, message, case))

    # merging ------------------------------------------------------------------
    def merge(self, o: "Stats"):
        for k, v in o.c.items():
            self.c[k] = self.c.get(k, 0) + v
        for k, v in o.sets.items():
            self.sets.setdefault(k, set()).update(v)
        for x in o.outcomes:
            self.outcome(x)
        self.outcomes_overflow += o.outcomes_overflow
        for s in o.samples:
            if len(self.samples) < 6:
                self.samples.append(s)
        self.n_violations += o.n_violations
        for k, v in o.sig_counts.items():
            self.sig_counts[k] = self.sig_counts.get(k, 0) + v
        for sig, lst in o.violations.items():
            mine = self.violations.get(sig)
            if mine is None:
                if len(self.violations) >= MAX_SIGS:
                    continue
                mine = self.violations[sig] = []
            for v in lst:
                if len(mine) < MAX_PER_SIG:
                    mine.append(v)
        self.capped = self.capped or o.capped
        return self


def case_id(case: dict) -> str:
    return hashlib.sha1(json.dumps(jsonable(case), sort_keys=True).encode()).hexdigest()[:16]


def exc_text(e: BaseException, limit=3) -> str:
    tb = traceback.extract_tb(e.__traceback__)
    where = ""
    for fr in reversed(tb):
        if "sym_metanet" in fr.filename:
            where = f" at {fr.filename.split('sym_metanet/')[-1]}:{fr.lineno}"
            break
    return f"{type(e).__name__}: {str(e)[:160]}{where}"


def exc_site(e: BaseException) -> str:
    """file:function of the innermost frame inside sym_metanet (stable across line edits)."""
    tb = traceback.extract_tb(e.__traceback__)
    for fr in reversed(tb):
        if "sym_metanet" in fr.filename:
            return f"{fr.filename.split('sym_metanet/')[-1]}:{fr.name}"
    return "outside"


class Deadline:
    def __init__(self, seconds: float):
        self.t_end = time.time() + seconds

    def over(self) -> bool:
        return time.time() > self.t_end
