"""NetSpec: an immutable description of a network as a construction program, and `build`,
which issues the real API calls.  Element keys: links 'L<i>' (index in spec.links), origins
'O<node>', destinations 'D<node>', nodes 'n<i>'."""
from __future__ import annotations

from dataclasses import dataclass, field, replace
from typing import Optional

from . import env  # noqa: F401
import sym_metanet as M

ORIGIN_KINDS = ("ideal", "main", "ramp_out", "ramp_in", "simp_lim", "simp_unl")
RAMP_KINDS = ("ramp_out", "ramp_in", "simp_lim", "simp_unl")
NONRAMP_KINDS = ("ideal", "main")
DEST_KINDS = ("free", "cong")


@dataclass(frozen=True)
class LinkS:
    u: int
    v: int
    N: int = 2
    lam: float = 2
    L: float = 1.0
    rho_max: float = 180.0
    rho_crit: float = 33.5
    v_free: float = 102.0
    a: float = 1.867
    beta: float = 1.0
    vsl: Optional[tuple] = None  # tuple of 0-based segment indices, or None for a plain Link
    alpha: float = 0.1


@dataclass(frozen=True)
class OriginS:
    node: int
    kind: str
    C: float = 2000.0


@dataclass(frozen=True)
class DestS:
    node: int
    kind: str


@dataclass(frozen=True)
class NetSpec:
    n: int
    links: tuple
    origins: tuple = ()
    dests: tuple = ()

    # -- keys ------------------------------------------------------------------
    def link_keys(self):
        return [f"L{i}" for i in range(len(self.links))]

    def origin_key(self, o: OriginS):
        return f"O{o.node}"

    def dest_key(self, d: DestS):
        return f"D{d.node}"

    def in_links(self, node):
        return [i for i, l in enumerate(self.links) if l.v == node]

    def out_links(self, node):
        return [i for i, l in enumerate(self.links) if l.u == node]

    def origin_at(self, node):
        for o in self.origins:
            if o.node == node:
                return o
        return None

    def dest_at(self, node):
        for d in self.dests:
            if d.node == node:
                return d
        return None

    def variables(self):
        """Ordered list of (elemkey, varname, size, role) of all independent variables."""
        out = []
        for i, l in enumerate(self.links):
            out.append((f"L{i}", "rho", l.N, "state"))
            out.append((f"L{i}", "v", l.N, "state"))
            if l.vsl is not None:
                out.append((f"L{i}", "v_ctrl", len(l.vsl), "action"))
        for o in self.origins:
            k = f"O{o.node}"
            if o.kind == "ideal":
                continue
            out.append((k, "w", 1, "state"))
            if o.kind == "main":
                out.append((k, "v_ctrl", 1, "action"))
            elif o.kind in ("ramp_out", "ramp_in"):
                out.append((k, "r", 1, "action"))
            else:
                out.append((k, "q", 1, "action"))
            out.append((k, "d", 1, "disturbance"))
        for d in self.dests:
            if d.kind == "cong":
                out.append((f"D{d.node}", "d", 1, "disturbance"))
        return out

    def state_vars(self):
        return [(e, v, n) for e, v, n, r in self.variables() if r == "state"]

    def describe(self):
        return {
            "n": self.n,
            "links": [{"u": l.u, "v": l.v, "N": l.N, "lam": l.lam, "L": l.L, "rho_max": l.rho_max,
                       "rho_crit": l.rho_crit, "v_free": l.v_free, "a": l.a, "beta": l.beta,
                       "vsl": None if l.vsl is None else list(l.vsl), "alpha": l.alpha} for l in self.links],
            "origins": [{"node": o.node, "kind": o.kind, "C": o.C} for o in self.origins],
            "dests": [{"node": d.node, "kind": d.kind} for d in self.dests],
        }

    @staticmethod
    def from_json(d):
        return NetSpec(
            d["n"],
            tuple(LinkS(l["u"], l["v"], l["N"], l["lam"], l["L"], l["rho_max"], l["rho_crit"], l["v_free"], l["a"],
                        l["beta"], None if l["vsl"] is None else tuple(l["vsl"]), l["alpha"]) for l in d["links"]),
            tuple(OriginS(o["node"], o["kind"], o["C"]) for o in d["origins"]),
            tuple(DestS(x["node"], x["kind"]) for x in d["dests"]),
        )

    def short(self):
        ls = ",".join(f"{l.u}>{l.v}" + (f"/{l.N}" if l.N != 2 else "") + ("v" if l.vsl is not None else "")
                      for l in self.links)
        os_ = ",".join(f"{o.node}:{o.kind}" for o in self.origins)
        ds = ",".join(f"{d.node}:{d.kind}" for d in self.dests)
        return f"n{self.n}[{ls}|{os_}|{ds}]"


class Built:
    __slots__ = ("net", "spec", "obj", "key_of")

    def __init__(self, net, spec, obj):
        self.net = net
        self.spec = spec
        self.obj = obj
        self.key_of = {id(o): k for k, o in obj.items()}


def default_order(spec: NetSpec):
    calls = [("nodes",)]
    calls += [("link", i) for i in range(len(spec.links))]
    calls += [("origin", o.node) for o in spec.origins]
    calls += [("dest", d.node) for d in spec.dests]
    return calls


def make_elements(spec: NetSpec, names=None, override=None):
    """Creates the real element objects.  names: key -> name (default: the key itself, but
    None values mean 'let the library auto-name').  override: {(key, param): value}."""
    names = names or {}
    override = override or {}

    def nm(k):
        return names[k] if k in names else k

    def ov(k, p, val):
        return override.get((k, p), val)

    obj = {}
    for i in range(spec.n):
        obj[f"n{i}"] = M.Node(name=nm(f"n{i}"))
    for i, l in enumerate(spec.links):
        k = f"L{i}"
        args = (l.N, ov(k, "lam", l.lam), ov(k, "L", l.L), ov(k, "rho_max", l.rho_max), ov(k, "rho_crit", l.rho_crit),
                ov(k, "v_free", l.v_free), ov(k, "a", l.a))
        if l.vsl is None:
            obj[k] = M.Link(*args, turnrate=ov(k, "beta", l.beta), name=nm(k))
        else:
            obj[k] = M.LinkWithVsl(*args, turnrate=ov(k, "beta", l.beta), name=nm(k),
                                   segments_with_vsl=set(l.vsl), alpha=ov(k, "alpha", l.alpha))
    for o in spec.origins:
        k = f"O{o.node}"
        C = ov(k, "C", o.C)
        if o.kind == "ideal":
            obj[k] = M.Origin(name=nm(k))
        elif o.kind == "main":
            obj[k] = M.MainstreamOrigin(name=nm(k))
        elif o.kind == "ramp_out":
            obj[k] = M.MeteredOnRamp(C, "out", name=nm(k))
        elif o.kind == "ramp_in":
            obj[k] = M.MeteredOnRamp(C, "in", name=nm(k))
        elif o.kind == "simp_lim":
            obj[k] = M.SimplifiedMeteredOnRamp(C, "limited", name=nm(k))
        elif o.kind == "simp_unl":
            obj[k] = M.SimplifiedMeteredOnRamp(C, "unlimited", name=nm(k))
        else:
            raise ValueError(o.kind)
    for d in spec.dests:
        k = f"D{d.node}"
        obj[k] = M.Destination(name=nm(k)) if d.kind == "free" else M.CongestedDestination(name=nm(k))
    return obj


def integer_typed(spec: NetSpec, P: dict):
    """The same kind of network with every whole-number-valued quantity given as a Python INT (legal, if unusual):
    returns (spec with rounded link/origin parameters, override for make_elements with int objects, model parameters
    with eta / kappa / phi as ints)."""
    from dataclasses import replace as _r
    links = tuple(_r(l, L=float(max(1, round(l.L))), rho_max=float(round(l.rho_max)), rho_crit=float(round(l.rho_crit)),
                     v_free=float(round(l.v_free)), a=float(max(2, round(l.a))), beta=float(max(1, round(l.beta)))) for l in spec.links)
    origins = tuple(_r(o, C=float(round(o.C))) for o in spec.origins)
    sp = _r(spec, links=links, origins=origins)
    ov = {}
    for i, l in enumerate(links):
        for p in ("L", "rho_max", "rho_crit", "v_free", "a", "beta"):
            ov[(f"L{i}", p)] = int(getattr(l, p))
    for o in origins:
        ov[(f"O{o.node}", "C")] = int(o.C)
    Pi = {k: (int(round(v)) if k in ("eta", "kappa", "phi") else v) for k, v in P.items()}
    return sp, ov, Pi


def touch_lookups(net):
    """Reads every lookup the network offers (so that each memoised entry exists)."""
    _ = (net.nodes_by_name, net.links_by_name, net.nodes_by_link, net.origins, net.origins_by_name, net.origins_by_node,
         net.destinations, net.destinations_by_name, net.destinations_by_node, list(net.links), list(net.in_links))
    for n in list(net.nodes):
        _ = (list(net.in_links(n)), list(net.out_links(n)))


def build(spec: NetSpec, names=None, order=None, override=None, netname="net", touch=False, subclass=False) -> Built:
    """Issues the real construction calls.  `order` is a list of calls:
    ('nodes',) add_nodes(all); ('node', i); ('link', i); ('links', (i, j, ..)) bulk;
    ('origin', node); ('dest', node); ('path', (link indices forming a chain), with_origin, with_dest)."""
    obj = make_elements(spec, names, override)
    if subclass:
        # every element becomes an instance of a trivial user-defined subclass of its library class
        from .graphmodel import as_probe_subclass, as_reordering_subclass, as_user_subclass
        for o in obj.values():
            {"probe": as_probe_subclass, "reorder": as_reordering_subclass}.get(subclass, as_user_subclass)(o)
    if subclass:
        net = type("UserNetwork", (M.Network,), {})(name=netname)  # ... and the network itself of a user subclass
    else:
        net = M.Network(name=netname)
    for call in (order or default_order(spec)):
        k = call[0]
        if k == "nodes":
            net.add_nodes([obj[f"n{i}"] for i in range(spec.n)])
        elif k == "node":
            net.add_node(obj[f"n{call[1]}"])
        elif k == "link":
            l = spec.links[call[1]]
            net.add_link(obj[f"n{l.u}"], obj[f"L{call[1]}"], obj[f"n{l.v}"])
        elif k == "links":
            net.add_links([(obj[f"n{spec.links[i].u}"], obj[f"L{i}"], obj[f"n{spec.links[i].v}"]) for i in call[1]])
        elif k == "origin":
            net.add_origin(obj[f"O{call[1]}"], obj[f"n{call[1]}"])
        elif k == "dest":
            net.add_destination(obj[f"D{call[1]}"], obj[f"n{call[1]}"])
        elif k == "path":
            idxs = call[1]
            path = [obj[f"n{spec.links[idxs[0]].u}"]]
            for i in idxs:
                path += [obj[f"L{i}"], obj[f"n{spec.links[i].v}"]]
            first, last = spec.links[idxs[0]].u, spec.links[idxs[-1]].v
            net.add_path(path,
                         origin=obj[f"O{first}"] if call[2] else None,
                         destination=obj[f"D{last}"] if call[3] else None)
        else:
            raise ValueError(call)
        if touch:
            touch_lookups(net)
    return Built(net, spec, obj)


def rebuild_with_new_nodes(built: Built) -> Built:
    """A second Network made of the SAME link / origin / destination objects but fresh Node objects (two scenario
    variants sharing their elements).  Element objects may be re-used in another network."""
    spec = built.spec
    obj = dict(built.obj)
    for i in range(spec.n):
        obj[f"n{i}"] = M.Node(name=f"m{i}")
    net = M.Network(name="net2")
    net.add_nodes([obj[f"n{i}"] for i in range(spec.n)])
    for i, l in enumerate(spec.links):
        net.add_link(obj[f"n{l.u}"], obj[f"L{i}"], obj[f"n{l.v}"])
    for o in spec.origins:
        net.add_origin(obj[f"O{o.node}"], obj[f"n{o.node}"])
    for d in spec.dests:
        net.add_destination(obj[f"D{d.node}"], obj[f"n{d.node}"])
    return Built(net, spec, obj)


def build_edited(spec: NetSpec, P: dict, mode: str = "links", engine=None) -> Built:
    """Reaches the network described by `spec` from a NON-initial state: a different valid network on the same
    nodes is built, every lookup is read, it is stepped, and then it is edited in place into the described
    network without any read in between.  What is returned must behave exactly like a freshly built network.
      mode "links":       first the final link objects sit on the WRONG edges (rotated), origins and destinations
                          are the final objects; the edit re-adds every link on its own edge;
      mode "replace":     first every edge carries a temporary link object with other parameters (origins and
                          destinations final); the edit replaces each by the final link, so the temporary ones
                          leave the network;
      mode "attachments": first the links are final, but ramps at interior nodes are missing and the other
                          origins/destinations are different objects of another kind; the edit attaches the final
                          origins and destinations (no link is touched afterwards);
      mode "params":      final topology and objects, other parameter VALUES at the first step; the edit sets the public
                          attributes (lanes, lengths, turn rates, capacities, ...) to the described values."""
    import numpy as _np

    if mode == "params":
        # the final topology and objects, but every link / ramp parameter has ANOTHER value while the network is first
        # stepped; afterwards the public attributes are set to the described values (no construction call at all)
        ov = {}
        for i, l in enumerate(spec.links):
            ov.update({(f"L{i}", "lam"): l.lam + 1, (f"L{i}", "L"): l.L * 1.1, (f"L{i}", "rho_max"): l.rho_max + 5.0,
                       (f"L{i}", "rho_crit"): l.rho_crit + 1.0, (f"L{i}", "v_free"): l.v_free - 3.0, (f"L{i}", "a"): l.a + 0.05,
                       (f"L{i}", "beta"): l.beta * 2.0 + 0.3 * i, (f"L{i}", "alpha"): l.alpha + 0.05})
        for o in spec.origins:
            ov[(f"O{o.node}", "C")] = o.C + 321.0
        # ... and the speed-limit signs stand on OTHER segments (same number of signs) until they are moved
        from dataclasses import replace as _rp
        moved = {i: tuple(sorted({(x + 1) % l.N for x in l.vsl})) for i, l in enumerate(spec.links)
                 if l.vsl is not None and 0 < len(l.vsl) < l.N}
        sp0 = _rp(spec, links=tuple(_rp(l, vsl=moved[i]) if i in moved else l for i, l in enumerate(spec.links)))
        b = build(sp0, override=ov)
        b = Built(b.net, spec, b.obj)
        touch_lookups(b.net)
        if engine is None:
            from sym_metanet.engines.numpy import Engine as _NE

            engine = _NE(_np.float64(27.5))
        b.net.step(engine=engine, **P)
        for i, l in enumerate(spec.links):
            el = b.obj[f"L{i}"]
            el.lam, el.L, el.rho_max, el.rho_crit, el.v_free, el.a, el.turnrate = l.lam, l.L, l.rho_max, l.rho_crit, l.v_free, l.a, l.beta
            if l.vsl is not None:
                el.alpha = l.alpha
                if i in moved:
                    el.vsl = sorted(l.vsl)
        for o in spec.origins:
            if o.kind not in ("ideal", "main"):
                b.obj[f"O{o.node}"].C = o.C
        return b
    obj = make_elements(spec)
    net = M.Network(name="net")
    nodes = [obj[f"n{i}"] for i in range(spec.n)]
    net.add_nodes(nodes)
    m = len(spec.links)
    rot = 1 if mode == "links" else 0
    for i, l in enumerate(spec.links):
        if mode == "replace":
            tmp = M.Link((l.N % 3) + 1, l.lam + 1, l.L * 1.1, l.rho_max + 5.0, l.rho_crit + 1.0, l.v_free - 3.0, l.a + 0.05,
                         turnrate=l.beta * 2.0, name=f"tmpL{i}")
            net.add_link(nodes[l.u], tmp, nodes[l.v])
        else:
            net.add_link(nodes[l.u], obj[f"L{(i + rot) % m}"], nodes[l.v])
    for o in spec.origins:
        if mode in ("links", "replace"):
            net.add_origin(obj[f"O{o.node}"], nodes[o.node])
            continue
        if spec.in_links(o.node):
            continue  # a ramp at an interior node is attached only later
        if o.kind in NONRAMP_KINDS:
            tmp = M.MainstreamOrigin(name=f"tmpO{o.node}") if o.kind == "ideal" else M.Origin(name=f"tmpO{o.node}")
        else:
            tmp = M.MeteredOnRamp(1234.0, "in" if o.kind != "ramp_in" else "out", name=f"tmpO{o.node}")
        net.add_origin(tmp, nodes[o.node])
    for d in spec.dests:
        if mode in ("links", "replace"):
            net.add_destination(obj[f"D{d.node}"], nodes[d.node])
        else:
            tmp = M.CongestedDestination(name=f"tmpD{d.node}") if d.kind == "free" else M.Destination(name=f"tmpD{d.node}")
            net.add_destination(tmp, nodes[d.node])
    touch_lookups(net)
    if engine is None:
        from sym_metanet.engines.numpy import Engine as _NE

        engine = _NE(_np.float64(27.5))
    net.step(engine=engine, **P)
    # ---- edits ----
    if mode in ("links", "replace"):
        for i, l in enumerate(spec.links):
            net.add_link(nodes[l.u], obj[f"L{i}"], nodes[l.v])
    else:
        for o in spec.origins:
            net.add_origin(obj[f"O{o.node}"], nodes[o.node])
        for d in spec.dests:
            net.add_destination(obj[f"D{d.node}"], nodes[d.node])
    return Built(net, spec, obj)


# ---------------------------------------------------------------------------------------
# independent validity predicate on specs (the nine documented conditions; objects are
# distinct by construction so condition 1 cannot fail)
# ---------------------------------------------------------------------------------------
def spec_valid(spec: NetSpec) -> bool:
    for node in range(spec.n):
        i, o = len(spec.in_links(node)), len(spec.out_links(node))
        org, dst = spec.origin_at(node), spec.dest_at(node)
        if org is not None and dst is not None:
            return False
        if i == 0 and o == 0:
            return False
        if i == 0 and org is None:
            return False
        if o == 0 and dst is None:
            return False
        if org is not None:
            if org.kind in NONRAMP_KINDS and i > 0:
                return False
            if o > 1:
                return False
        if dst is not None:
            if i > 1 or o > 0:
                return False
    return True
