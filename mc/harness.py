"""Drives the real code: NumPy steps and compiled CasADi functions of built networks."""
from __future__ import annotations

import numpy as np
import casadi as cs

from . import env
from .spec import Built, NetSpec, build

INF = float("inf")
OPTS = ("positive_init_speed", "positive_init_density", "positive_init_queue",
        "positive_next_speed", "positive_next_density", "positive_next_queue")


def supply_modes(spec: NetSpec):
    """The 'which initial conditions does the caller supply' dimension: list of (label, frozenset of supplied
    (key, var) pairs).  Nothing supplied (an EMPTY dict, not None); every single element omitted; every single element
    alone; every single variable omitted.  Everything not supplied is created by the engine itself."""
    allv = [(k, v) for k, v, n, r in spec.variables()]
    keys = list(dict.fromkeys(k for k, v in allv))
    modes = [("none-supplied", frozenset())]
    for k in keys:
        modes.append((f"omit-element:{k}", frozenset(x for x in allv if x[0] != k)))
        if len(keys) > 1:
            modes.append((f"only-element:{k}", frozenset(x for x in allv if x[0] == k)))
    for x in allv:
        if sum(1 for y in allv if y[0] == x[0]) > 1:
            modes.append((f"omit-variable:{x[0]}.{x[1]}", frozenset(y for y in allv if y != x)))
    return modes


def filled(spec: NetSpec, val: dict, supply, fill: float):
    """The value vector the step really starts from when only `supply` is given and the engine fills the rest."""
    return {k: (list(v) if k in supply else [float(fill)] * len(v)) for k, v in val.items()}


def np_inputs(built: Built, val: dict, scalar_shape="1d", supply=None, integer=False):
    """init_conditions for the NumPy engine.  Link vectors have shape (N,); origin and
    destination scalars are 0-d ('0d') or length-1 ('1d') arrays.  With `supply` only those (key, var) pairs are
    given (an element none of whose variables is supplied does not appear at all)."""
    ic = {}
    for (key, var), lst in val.items():
        if supply is not None and (key, var) not in supply:
            continue
        el = built.obj[key]
        if integer and all(abs(x) != INF and float(x).is_integer() for x in lst):
            # caller arrays of INTEGER dtype (whole-number values)
            arr = np.array([int(x) for x in lst]) if (key.startswith("L") or scalar_shape != "0d") else np.array(int(lst[0]))
        elif key.startswith("L"):
            arr = np.array(lst, dtype=float)
        elif scalar_shape == "0d":
            arr = np.array(float(lst[0]))
        else:
            arr = np.array([float(lst[0])])
        ic.setdefault(el, {})[var] = arr
    return ic


def read_next(built: Built) -> dict:
    out = {}
    for key, var, n in built.spec.state_vars():
        el = built.obj[key]
        ns = el.next_states
        if ns is None or var not in ns:
            raise KeyError(f"no next state {var} in {key}")
        out[(key, var)] = ns[var]
    return out


def to_lists(nxt: dict) -> dict:
    return {k: [float(x) for x in np.atleast_1d(np.asarray(v, dtype=float)).ravel()] for k, v in nxt.items()}


def np_step(spec: NetSpec, val: dict, P: dict, opts: dict = None, scalar_shape="1d", built: Built = None,
            engine=None, supply=None, positional=False, integer=False):
    """One real NumPy step on a fresh network; returns ({(key,var): [floats]}, built, raw)."""
    if built is None:
        built = build(spec)
    eng = engine or env.numpy_engine()
    ic = np_inputs(built, val, scalar_shape, supply, integer)
    if positional:
        # the documented positional order of Network.step: init_conditions, engine, then the six options in OPTS order
        built.net.step(ic, eng, *[bool((opts or {}).get(o, False)) for o in OPTS], **P)
    else:
        built.net.step(init_conditions=ic, engine=eng, **P, **(opts or {}))
    raw = read_next(built)
    return to_lists(raw), built, raw


def np_manual_steps(spec: NetSpec, vals_seq, P: dict, built: Built = None):
    """Steps the network element by element through the public per-element API (init_vars / step of every element,
    in the network's own enumeration order: links first, then origins, then destinations), once per value vector of
    `vals_seq`, on the same objects.  Returns the next states after the last one."""
    if built is None:
        built = build(spec)
    eng = env.numpy_engine()
    for val in vals_seq:
        ic = np_inputs(built, val)
        for el in built.net.elements:
            el.init_vars(init_conditions=ic.get(el), engine=eng)
        for el in built.net.elements:
            el.step(net=built.net, engine=eng, positive_next_speed=False, **P)
    return to_lists(read_next(built)), built


class Compiled:
    """A compiled function at compact=0 with name-based access to arguments/results."""

    def __init__(self, F, built: Built, more_out=False, pnames=()):
        self.F = F
        self.built = built
        self.names_in = F.name_in()
        self.names_out = F.name_out()
        self.pnames = list(pnames)
        spec = built.spec
        self.in_slots = []  # per input position: (key, var) or ('p', name)
        name2kv = {}
        for key, var, n, role in spec.variables():
            name2kv[f"{var}_{built.obj[key].name}"] = (key, var)
        self.name2kv = name2kv
        for nm in self.names_in:
            if nm in name2kv:
                self.in_slots.append(name2kv[nm])
            elif nm in self.pnames:
                self.in_slots.append(("p", nm))
            else:
                self.in_slots.append(("?", nm))
        self.out_slots = []
        for nm in self.names_out:
            if nm.endswith("+") and nm[:-1] in name2kv:
                self.out_slots.append(name2kv[nm[:-1]])
            else:
                self.out_slots.append(("x", nm))
        self._maps = {}

    def eval_many(self, vals: list, pvals: dict = None):
        """vals: list of value dicts -> list of dicts {(key,var)|('x',name): np.array}."""
        n = len(vals)
        args = []
        for slot, sz in zip(self.in_slots, [self.F.size1_in(i) for i in range(self.F.n_in())]):
            if slot[0] == "p":
                col = np.atleast_1d(np.asarray(pvals[slot[1]], dtype=float)).reshape(-1, 1)
                args.append(cs.DM(np.repeat(col, n, axis=1)))
            elif slot[0] == "?":
                raise KeyError(f"unknown function argument {slot[1]}")
            else:
                m = np.array([v[slot] for v in vals], dtype=float).T.reshape(sz, n)
                args.append(cs.DM(m))
        if n == 1:
            res = self.F(*args)
        else:
            Fm = self._maps.get(n)
            if Fm is None:
                Fm = self._maps[n] = self.F.map(n)
            res = Fm(*args)
        if not isinstance(res, (list, tuple)):
            res = [res]
        mats = [np.array(r.full() if hasattr(r, "full") else r, dtype=float).reshape(-1, n) for r in res]
        out = []
        for c in range(n):
            out.append({slot: mats[i][:, c] for i, slot in enumerate(self.out_slots)})
        return out


def cs_compile(spec: NetSpec, sym: str, P: dict, opts: dict = None, compact=0, more_out=False, built: Built = None,
               parameters=None, step_P=None, override=None, supply=None):
    """Real symbolic step + to_function on a fresh network.  Returns (F, built, engine).  With `supply` (a set of
    (key, var) pairs) the caller provides its own symbols for exactly those variables through init_conditions (an
    empty dict when the set is empty) and the engine creates the rest."""
    if built is None:
        built = build(spec, override=override)
    eng = env.casadi_engine(sym)
    kw0 = {}
    if supply is not None:
        ic = {}
        for key, var, n, role in spec.variables():
            if (key, var) in supply:
                el = built.obj[key]
                ic.setdefault(el, {})[var] = eng.var(f"{var}_{el.name}", n)
        kw0["init_conditions"] = ic
    built.net.step(engine=eng, **kw0, **(step_P if step_P is not None else P), **(opts or {}))
    kw = {}
    if more_out:
        kw.update({k: v for k, v in P.items()})
    if parameters:
        F = eng.to_function(built.net, compact=compact, more_out=more_out, parameters=parameters, **kw)
    else:
        F = eng.to_function(built.net, compact=compact, more_out=more_out, **kw)
    return F, built, eng


def close(a, b, rtol=1e-9):
    """|a-b| <= rtol*max(1,|a|,|b|); NaN equals nothing; equal infinities are equal."""
    if a != a or b != b:
        return False
    if a == b:
        return True
    if abs(a) == INF or abs(b) == INF:
        return False
    return abs(a - b) <= rtol * max(1.0, abs(a), abs(b))
