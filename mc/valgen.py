"""Value vectors: base vectors with element-distinct values, alphabets that contain every
branch boundary of the reference model, and the deviation-bounded enumerations."""
from __future__ import annotations

import itertools

from .spec import NetSpec

INF = float("inf")


def base_vector(spec: NetSpec, which: int = 0) -> dict:
    """Two base vectors: 0 = free-flowing, 1 = congested.  Every scalar is distinct."""
    val = {}
    for i, l in enumerate(spec.links):
        if which == 0:
            val[(f"L{i}", "rho")] = [14.0 + 6.5 * i + 2.25 * j for j in range(l.N)]
            val[(f"L{i}", "v")] = [93.0 - 7.5 * i - 3.25 * j for j in range(l.N)]
        else:
            val[(f"L{i}", "rho")] = [52.0 + 9.5 * i + 5.75 * j for j in range(l.N)]
            val[(f"L{i}", "v")] = [41.0 - 4.5 * i - 2.75 * j for j in range(l.N)]
        if l.vsl is not None:
            val[(f"L{i}", "v_ctrl")] = [(55.0 if which == 0 else 35.0) + 4.0 * i + 7.0 * j for j in range(len(l.vsl))]
    for o in spec.origins:
        k = f"O{o.node}"
        if o.kind == "ideal":
            continue
        val[(k, "w")] = [0.4 + 0.3 * o.node + which * 20.0]
        val[(k, "d")] = [1150.0 + 270.0 * o.node + which * 900.0]
        if o.kind == "main":
            val[(k, "v_ctrl")] = [72.0 + 5.0 * o.node - which * 30.0]
        elif o.kind in ("ramp_out", "ramp_in"):
            val[(k, "r")] = [0.55 + 0.1 * o.node if o.node < 4 else 0.9]
        else:
            val[(k, "q")] = [640.0 + 110.0 * o.node + which * 800.0]
    for d in spec.dests:
        if d.kind == "cong":
            val[(f"D{d.node}", "d")] = [24.0 + 5.0 * d.node + which * 40.0]
    return val


def alphabet(spec: NetSpec, key: str, var: str, negatives: bool = False):
    """Alphabet of one scalar variable: contains every branch boundary and an interior point
    of every branch region of the laws that read it.  Simplest-first."""
    if key.startswith("L"):
        l = spec.links[int(key[1:])]
        if var == "rho":
            a = [0.0, 0.5 * l.rho_crit, l.rho_crit, 0.5 * (l.rho_crit + l.rho_max), l.rho_max]
            if negatives:
                a += [-7.0]
            return a
        if var == "v":
            a = [0.0, 0.03 * l.v_free, 0.4 * l.v_free, 0.8 * l.v_free, 1.1 * l.v_free]
            if negatives:
                a += [-11.0]
            return a
        if var == "v_ctrl":
            return [20.0, 60.0, 200.0, INF]
    if key.startswith("O"):
        if var == "w":
            a = [0.0, 2.0, 50.0]
            if negatives:
                a += [-3.0]
            return a
        if var == "d":
            return [0.0, 300.0, 5000.0]
        if var == "r":
            return [0.0, 0.5, 1.0]
        if var == "q":
            return [0.0, 400.0, 1e6, INF]
        if var == "v_ctrl":
            return [0.0, 3.0, 20.0, 60.0, 200.0, INF]
    if key.startswith("D") and var == "d":
        return [0.0, 20.0, 60.0, 200.0]
    raise ValueError((key, var))


def scalars(spec: NetSpec):
    """All scalar input components as (key, var, idx)."""
    out = []
    for key, var, n, role in spec.variables():
        for j in range(n):
            out.append((key, var, j))
    return out


def with_value(val: dict, comp, x):
    key, var, j = comp
    v2 = dict(val)
    lst = list(val[(key, var)])
    lst[j] = x
    v2[(key, var)] = lst
    return v2


def vectors(spec: NetSpec, d: int, bases=(0, 1), negatives=False):
    """Yields (label, value dict): the base vectors, all single excursions (d >= 1), all pair
    excursions (d >= 2)."""
    if d < 0:
        return
    comps = scalars(spec)
    for b in bases:
        base = base_vector(spec, b)
        yield (f"base{b}", base)
        if d >= 1:
            for c in comps:
                for x in alphabet(spec, c[0], c[1], negatives):
                    yield (f"base{b}:{c[0]}.{c[1]}[{c[2]}]={x}", with_value(base, c, x))
        if d >= 2:
            for c1, c2 in itertools.combinations(comps, 2):
                for x1 in alphabet(spec, c1[0], c1[1], negatives):
                    for x2 in alphabet(spec, c2[0], c2[1], negatives):
                        yield (f"base{b}:{c1[0]}.{c1[1]}[{c1[2]}]={x1},{c2[0]}.{c2[1]}[{c2[2]}]={x2}",
                               with_value(with_value(base, c1, x1), c2, x2))


def extreme_vectors(spec: NetSpec):
    """Global boundary states: standstill (all speeds 0), empty road (all densities 0), both, and everything at
    its maximum density - the states in which whole sums (node inflows, first-segment densities) vanish."""
    out = []
    for b in (0, 1):
        base = base_vector(spec, b)
        for name, f in (("standstill", lambda k, x, l: 0.0 if k[1] == "v" else x),
                        ("empty", lambda k, x, l: 0.0 if k[1] == "rho" else x),
                        ("empty-standstill-no-demand", lambda k, x, l: 0.0 if k[1] in ("rho", "v", "w", "d") else x),
                        ("jam", lambda k, x, l: l.rho_max if (k[1] == "rho" and l is not None) else x)):
            v = {}
            for k, lst in base.items():
                l = spec.links[int(k[0][1:])] if k[0].startswith("L") else None
                v[k] = [f(k, x, l) for x in lst]
            out.append((f"base{b}:{name}", v))
    return out


def link_subset_vectors(spec: NetSpec, base=0, max_links=6):
    """Boundary states of whole links: for every non-empty proper subset S of the links (networks with 3..max_links links;
    with fewer links the single excursions and the global extremes already contain them) the base vector with every
    density of the links in S at 0 (empty links), and the one with every speed of S at 0 (standing links) - the states in
    which PART of the terms of a node's sums vanish."""
    m = len(spec.links)
    if m < 3 or m > max_links:
        return []
    out = []
    basev = base_vector(spec, base)
    for mask in range(1, 2 ** m - 1):
        S = [i for i in range(m) if mask >> i & 1]
        for name, var in (("empty", "rho"), ("standing", "v")):
            v = {k: (([0.0] * len(lst)) if (k[1] == var and k[0].startswith("L") and int(k[0][1:]) in S) else list(lst))
                 for k, lst in basev.items()}
            out.append((f"base{base}:links{S}-{name}", v))
    return out


def local_products(spec: NetSpec, cone, base=0, negatives=False):
    """Full Cartesian product of the alphabets of the scalars in `cone` (<= 8 of them)."""
    basev = base_vector(spec, base)
    alphas = [alphabet(spec, c[0], c[1], negatives) for c in cone]
    for combo in itertools.product(*alphas):
        v = basev
        for c, x in zip(cone, combo):
            v = with_value(v, c, x)
        yield (f"prod{base}:" + ",".join(f"{c[0]}.{c[1]}[{c[2]}]={x}" for c, x in zip(cone, combo)), v)


def admissible(spec: NetSpec, val: dict) -> bool:
    for (key, var), lst in val.items():
        for x in lst:
            if x != x or x < 0:
                return False
            if key.startswith("L") and var == "rho" and x > spec.links[int(key[1:])].rho_max:
                return False
            if var == "r" and x > 1:
                return False
    return True
