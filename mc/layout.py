"""Reference model of the documented argument/result layout of `to_function` (C04) and of the
network's element enumeration order, computed from the spec and the construction calls only
(never from the built network)."""
from __future__ import annotations

from .spec import NetSpec, default_order

GROUPS = ("state", "action", "disturbance")


def element_order(spec: NetSpec, order=None):
    """(link keys, origin keys, destination keys) in the network's enumeration order: links
    in graph edge order (by upstream node in node-insertion order, then by edge insertion),
    origins and destinations in node-insertion order."""
    nodes = []  # insertion order
    succ = {}

    def addn(i):
        if i not in succ:
            succ[i] = []
            nodes.append(i)

    def addl(i):
        l = spec.links[i]
        addn(l.u)
        addn(l.v)
        for k, (v, j) in enumerate(succ[l.u]):
            if v == l.v:
                succ[l.u][k] = (v, i)
                return
        succ[l.u].append((l.v, i))

    for call in (order or default_order(spec)):
        k = call[0]
        if k == "nodes":
            for i in range(spec.n):
                addn(i)
        elif k == "node":
            addn(call[1])
        elif k == "link":
            addl(call[1])
        elif k == "links":
            for i in call[1]:
                addl(i)
        elif k in ("origin", "dest"):
            addn(call[1])
        elif k == "path":
            idxs = call[1]
            addn(spec.links[idxs[0]].u)
            for i in idxs:
                addn(spec.links[i].v)
                addl(i)
    lk = [f"L{j}" for u in nodes for (v, j) in succ[u]]
    ok = [f"O{u}" for u in nodes if spec.origin_at(u) is not None]
    dk = [f"D{u}" for u in nodes if spec.dest_at(u) is not None]
    return lk, ok, dk


def element_vars(spec: NetSpec):
    """{key: {group: [(var, size)]}} in the per-element dict order."""
    out = {}
    for key, var, n, role in spec.variables():
        out.setdefault(key, {g: [] for g in GROUPS})[role].append((var, n))
    return out


class Layout:
    """names/sizes/slots of arguments and results at one compactness level.
    A slot is a list of (key, var, idx) scalars (inputs) or of ('x+', key, var, idx) /
    ('q', linkkey, idx) / ('q_o', originkey) scalars (outputs)."""

    def __init__(self, spec: NetSpec, order=None, compact=0, more_out=False, pnames=(), names=None, var_order=None):
        """var_order: optional {key: {group: [variable names]}} - the order of the variables inside one
        element's group as observed on the real element (the property fixes the order of elements and
        groups and that results follow their state arguments, not the order of `rho` and `v` inside a link);
        it must be a permutation of the variables the spec declares."""
        self.spec = spec
        names = names or {}

        def nm(k):
            return names.get(k, k)

        lk, ok, dk = element_order(spec, order)
        elems = lk + ok + dk
        ev = element_vars(spec)
        self.var_order_problem = None
        if var_order:
            for key, groups in var_order.items():
                for g, vs in groups.items():
                    have = ev.get(key, {}).get(g, [])
                    if sorted(vs) != sorted(v for v, _ in have):
                        self.var_order_problem = f"{g}s of {key} are {vs}, expected {sorted(v for v, _ in have)}"
                        continue
                    if not have:
                        continue
                    sizes = dict(have)
                    ev[key][g] = [(v, sizes[v]) for v in vs]
        self.elements = elems
        self.link_order, self.origin_order, self.dest_order = lk, ok, dk
        per_group = {g: [] for g in GROUPS}  # [(key, var, size)]
        for g in GROUPS:
            for key in elems:
                for var, n in ev.get(key, {}).get(g, []):
                    per_group[g].append((key, var, n))
        self.per_group = per_group
        in_names, in_slots = [], []
        if compact <= 0:
            for g in GROUPS:
                for key, var, n in per_group[g]:
                    in_names.append(f"{var}_{nm(key)}")
                    in_slots.append([(key, var, j) for j in range(n)])
        else:
            grouped = {g: {} for g in GROUPS}
            for g in GROUPS:
                for key, var, n in per_group[g]:
                    grouped[g].setdefault(var, []).extend((key, var, j) for j in range(n))
            if compact == 1:
                for g in GROUPS:
                    for var, sl in grouped[g].items():
                        in_names.append(var)
                        in_slots.append(sl)
            else:
                for g, nm_ in zip(GROUPS, ("x", "u", "d")):
                    in_names.append(nm_)
                    in_slots.append([s for sl in grouped[g].values() for s in sl])
        self.n_model_inputs = len(in_names)
        pnames = list(pnames)
        if pnames:
            if compact <= 0:
                for p in pnames:
                    in_names.append(p)
                    in_slots.append([("p", p, 0)])
            else:
                in_names.append("p")
                in_slots.append([("p", p, 0) for p in pnames])
        self.in_names, self.in_slots = in_names, in_slots
        # outputs: successors of the state arguments, same order
        out_names, out_slots = [], []
        st = per_group["state"]
        if compact <= 0:
            for key, var, n in st:
                out_names.append(f"{var}_{nm(key)}+")
                out_slots.append([("x+", key, var, j) for j in range(n)])
        else:
            g = {}
            for key, var, n in st:
                g.setdefault(var + "+", []).extend(("x+", key, var, j) for j in range(n))
            if compact == 1:
                for var, sl in g.items():
                    out_names.append(var)
                    out_slots.append(sl)
            else:
                out_names.append("x+")
                out_slots.append([s for sl in g.values() for s in sl])
        self.n_state_outputs = len(out_names)
        if more_out:
            ql = [[("q", key, j) for j in range(spec.links[int(key[1:])].N)] for key in lk]
            qo = [[("q_o", key)] for key in ok]
            if compact <= 0:
                for key, sl in zip(lk, ql):
                    out_names.append(f"q_{nm(key)}")
                    out_slots.append(sl)
                for key, sl in zip(ok, qo):
                    out_names.append(f"q_o_{nm(key)}")
                    out_slots.append(sl)
            elif compact == 1:
                out_names.append("q")
                out_slots.append([s for sl in ql for s in sl])
                out_names.append("q_o")
                out_slots.append([s for sl in qo for s in sl])
            else:
                out_names.append("q")
                out_slots.append([s for sl in ql for s in sl] + [s for sl in qo for s in sl])
        self.out_names, self.out_slots = out_names, out_slots

    def pack(self, val: dict, pvals: dict = None):
        """Argument vectors (lists of floats) for a value dict."""
        args = []
        for sl in self.in_slots:
            col = []
            for s in sl:
                if s[0] == "p":
                    col.append(float(pvals[s[1]]))
                else:
                    col.append(float(val[(s[0], s[1])][s[2]]))
            args.append(col)
        return args
