"""Binds the checks to the repository source tree and pins down nondeterminism.

Every check imports this module first.  It makes `<root>/src` (root = $VERIF_SRC_ROOT,
default /repo) the first entry of sys.path, imports `sym_metanet` and asserts that the
imported package really is the one of that tree, so that a run always exercises the
*current working tree* (the package is pure Python: rebuilding == importing afresh).
"""
import os
import sys
import warnings

SRC_ROOT = os.path.realpath(os.environ.get("VERIF_SRC_ROOT", "/repo"))
SRC = os.path.join(SRC_ROOT, "src")
VERIF = os.path.realpath(os.path.join(os.path.dirname(__file__), ".."))

if SRC in sys.path:
    sys.path.remove(SRC)
sys.path.insert(0, SRC)

warnings.simplefilter("ignore")

import numpy as np  # noqa: E402

np.seterr(all="ignore")

import sym_metanet  # noqa: E402

_pkg = os.path.realpath(sym_metanet.__file__)
if not _pkg.startswith(SRC + os.sep):
    raise SystemExit(f"env: sym_metanet imported from {_pkg}, expected under {SRC}")

TIER = os.environ.get("VERIF_TIER", "quick")
try:
    SEED = int(os.environ.get("VERIF_SEED", "0"))
except ValueError:
    SEED = 0
NPROC = int(os.environ.get("VERIF_NPROC", str(min(16, os.cpu_count() or 1))))


def numpy_engine(*a, **k):
    from sym_metanet.engines.numpy import Engine

    return Engine(*a, **k)


def casadi_engine(sym="SX"):
    from sym_metanet.engines.casadi import Engine

    return Engine(sym)


class keep_engine:
    """Context manager: save/restore the module-level engine selection."""

    def __enter__(self):
        self.saved = sym_metanet.engine
        return self

    def __exit__(self, *exc):
        sym_metanet.engine = self.saved
        return False
