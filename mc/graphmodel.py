"""Reference model of the construction API and of the lookups (C06, C08, C09).

The model is deliberately boring: an insertion-ordered dict of nodes with two optional
attachments each, and a dict (u, v) -> link.  Objects are referred to by *labels*
('a', 'L1', 'O1', 'D1', ...) of a `Universe`; the real objects live in the universe and
are created afresh for every execution.
"""
from __future__ import annotations

from . import env  # noqa: F401  (binds sys.path)
import sym_metanet as M
from sym_metanet.views import DESTINATIONENTRY, LINKENTRY, ORIGINENTRY

ORIGIN_KINDS = {
    "ideal": lambda name: M.Origin(name=name),
    "main": lambda name: M.MainstreamOrigin(name=name),
    "metered": lambda name: M.MeteredOnRamp(2000.0, name=name),
    "simplified": lambda name: M.SimplifiedMeteredOnRamp(2000.0, name=name),
}
RAMP_KINDS = ("metered", "simplified")
DEST_KINDS = {
    "free": lambda name: M.Destination(name=name),
    "congested": lambda name: M.CongestedDestination(name=name),
}


def mk_link(name, N=2, lanes=2, cls=None):
    return M.Link(N, lanes, 1.0, 180.0, 33.5, 102.0, 1.867, name=name)


SAME_NAME = (lambda lab: "x")

_USER_CLASSES = {}


def as_user_subclass(o):
    """Turns a library element into an instance of a trivial USER-DEFINED subclass of its class (class UserX(X): pass).
    Every documented rule speaks about kinds of elements ('ramps', 'links', ...), and a subclass instance is of that kind."""
    cls = type(o)
    sub = _USER_CLASSES.get(cls)
    if sub is None:
        sub = _USER_CLASSES[cls] = type("User" + cls.__name__, (cls,), {"__slots__": ()})
    o.__class__ = sub
    return o


class Universe:
    """Fresh real objects with labels.  `spec` maps label -> constructor description:
    nodes: 'node'; links: 'link'; origins: ('origin', kind); destinations: ('dest', kind);
    anything else: ('raw', object) for type-confusion tokens."""

    def __init__(self, spec: dict, namer=None, subclass=False):
        """namer: optional label -> element name (default: the label).  Distinct objects may share a name.
        subclass: every element is an instance of a trivial user-defined subclass of its library class."""
        self.obj = {}
        self.kind = {}
        nm = namer or (lambda lab: lab)
        for lab, what in spec.items():
            if what == "node":
                o = M.Node(name=nm(lab))
            elif what == "link":
                # links of the universes differ in segments and lanes; the last one is a single-lane, single-segment link
                o = mk_link(nm(lab), N=1, lanes=1) if lab.endswith("2") else mk_link(nm(lab))
            elif what[0] == "origin":
                o = ORIGIN_KINDS[what[1]](nm(lab))
            elif what[0] == "dest":
                o = DEST_KINDS[what[1]](nm(lab))
            elif what[0] == "raw":
                o = what[1]
            else:
                raise ValueError(what)
            if subclass and what[0] != "raw":
                o = as_user_subclass(o)
            self.obj[lab] = o
            self.kind[lab] = what
        self._lab = {id(o): lab for lab, o in self.obj.items()}

    def lab(self, o):
        if id(o) in self._lab:
            return self._lab[id(o)]
        return f"!{type(o).__name__}:{getattr(o, 'name', repr(o))}"

    def is_ramp(self, lab):
        k = self.kind.get(lab)
        return isinstance(k, tuple) and k[0] == "origin" and k[1] in RAMP_KINDS


_REORDER_CLASSES = {}


def as_reordering_subclass(o):
    """User-defined subclass whose step_dynamics returns the library's next states in REVERSED key order (the contract is
    a dictionary keyed by state name; nothing is said about the order of its keys)."""
    cls = type(o)
    if not hasattr(cls, "step_dynamics"):
        return as_user_subclass(o)
    sub = _REORDER_CLASSES.get(cls)
    if sub is None:
        def step_dynamics(self, *a, **k):
            d = cls.step_dynamics(self, *a, **k)
            return dict(reversed(list(d.items())))
        sub = _REORDER_CLASSES[cls] = type("Reordering" + cls.__name__, (cls,), {"__slots__": (), "step_dynamics": step_dynamics})
    o.__class__ = sub
    return o


PROBE_LOG = []  # (class name, method name, engine object received) of every call made on a probe element
_PROBE_CLASSES = {}


def as_probe_subclass(o):
    """Turns a library element into an instance of a user-defined subclass that overrides every method taking an
    `engine` argument: the override records the engine object it receives in PROBE_LOG and delegates to the library
    method.  (What a user-defined element that really uses the engine handed to it would see.)"""
    import functools
    import inspect
    cls = type(o)
    sub = _PROBE_CLASSES.get(cls)
    if sub is None:
        ns = {"__slots__": ()}
        for name in dir(cls):
            f = getattr(cls, name, None)
            if name.startswith("__") or not inspect.isfunction(f):
                continue
            try:
                sig = inspect.signature(f)
            except (TypeError, ValueError):
                continue
            has_kw = any(p_.kind is inspect.Parameter.VAR_KEYWORD for p_ in sig.parameters.values())
            if "engine" not in sig.parameters and not (has_kw and "net" in sig.parameters):
                continue  # (methods taking the network and **kwargs are hooks an override of which may use the engine)

            def make(f=f, sig=sig, name=name):
                @functools.wraps(f)
                def probe(self, *a, **k):
                    try:
                        args_ = sig.bind(self, *a, **k).arguments
                        eng = args_["engine"] if "engine" in args_ else k.get("engine")
                    except TypeError:
                        eng = k.get("engine")
                    PROBE_LOG.append((cls.__name__, name, eng))
                    return f(self, *a, **k)
                return probe
            ns[name] = make()
        sub = _PROBE_CLASSES[cls] = type("Probe" + cls.__name__, (cls,), ns)
    o.__class__ = sub
    return o


STD_UNIVERSE = {
    "a": "node", "b": "node", "c": "node",
    "L1": "link", "L2": "link",
    "O1": ("origin", "ideal"), "O2": ("origin", "metered"),
    "D1": ("dest", "free"), "D2": ("dest", "congested"),
}


# ---------------------------------------------------------------------------------------
# snapshots of the real graph, in labels
# ---------------------------------------------------------------------------------------
class Snap:
    """nodes: {label: (origin_label|None, dest_label|None)}, edges: {(u, v): link_label}"""

    __slots__ = ("nodes", "edges")

    def __init__(self, nodes, edges):
        self.nodes = nodes
        self.edges = edges

    def key(self):
        return (tuple(sorted(self.nodes.items(), key=lambda kv: kv[0])),
                tuple(sorted(self.edges.items())))

    def __eq__(self, o):
        return self.nodes == o.nodes and self.edges == o.edges

    def to_json(self):
        return {"nodes": {k: list(v) for k, v in self.nodes.items()},
                "edges": [[u, v, l] for (u, v), l in self.edges.items()]}


def snapshot(net, U: Universe) -> Snap:
    G = net.graph
    nodes = {}
    for n, data in G.nodes(data=True):
        o = data.get(ORIGINENTRY)
        d = data.get(DESTINATIONENTRY)
        nodes[U.lab(n)] = (None if ORIGINENTRY not in data else U.lab(o),
                           None if DESTINATIONENTRY not in data else U.lab(d))
    edges = {}
    for u, v, data in G.edges(data=True):
        edges[(U.lab(u), U.lab(v))] = U.lab(data.get(LINKENTRY)) if LINKENTRY in data else "!nolink"
    return Snap(nodes, edges)


def type_problems(net) -> list[str]:
    """Invariant of C09: every graph node is a Node, every edge carries a Link."""
    G = net.graph
    out = []
    for n in G.nodes:
        if not isinstance(n, M.Node):
            out.append(f"graph node {n!r} is a {type(n).__name__}, not a Node")
    for u, v, data in G.edges(data=True):
        if not isinstance(data.get(LINKENTRY), M.Link):
            out.append(f"edge {u!r}->{v!r} carries {data.get(LINKENTRY)!r}")
    return out


# ---------------------------------------------------------------------------------------
# the model
# ---------------------------------------------------------------------------------------
class Model:
    def __init__(self):
        self.nodes: dict = {}
        self.edges: dict = {}

    def snap(self) -> Snap:
        return Snap(dict(self.nodes), dict(self.edges))

    def load(self, s: Snap):
        self.nodes = dict(s.nodes)
        self.edges = dict(s.edges)

    def _node(self, n):
        self.nodes.setdefault(n, (None, None))

    def apply(self, op, U: Universe) -> str:
        """Returns 'ok' or 'reject' (the call must raise)."""
        k = op[0]
        if k.endswith("_kw"):
            k = k[:-3]  # the keyword form of a call builds what the positional form builds
        if k == "add_node":
            self._node(op[1])
        elif k == "add_nodes":
            for n in op[1]:
                self._node(n)
        elif k == "add_link":
            self._link(op[1], op[2], op[3])
        elif k == "add_links":
            for u, l, v in op[1]:
                self._link(u, l, v)
        elif k == "add_origin":
            self._node(op[2])
            self.nodes[op[2]] = (op[1], self.nodes[op[2]][1])
        elif k == "add_destination":
            self._node(op[2])
            self.nodes[op[2]] = (self.nodes[op[2]][0], op[1])
        elif k == "add_path":
            path, o, d = op[1], op[2], op[3]
            if not path_well_formed(path, U):
                return "reject"
            self._node(path[0])
            if o is not None:
                self.nodes[path[0]] = (o, self.nodes[path[0]][1])
            for i in range(1, len(path), 2):
                self._link(path[i - 1], path[i], path[i + 1])
            if d is not None:
                self.nodes[path[-1]] = (self.nodes[path[-1]][0], d)
        else:
            raise ValueError(op)
        return "ok"

    def _link(self, u, l, v):
        self._node(u)
        self._node(v)
        self.edges[(u, v)] = l


def path_well_formed(path, U: Universe) -> bool:
    """Documented rule: node (link node)+ ; i.e. odd length >= 3, nodes at even positions,
    links at odd positions."""
    if len(path) < 3 or len(path) % 2 == 0:
        return False
    for i, p in enumerate(path):
        what = U.kind[p]
        if i % 2 == 0 and what != "node":
            return False
        if i % 2 == 1 and what != "link":
            return False
    return True


def apply_real(net, op, U: Universe):
    """Issues the real API call described by `op`; returns the exception or None."""
    o = U.obj
    try:
        k = op[0]
        # bulk arguments are documented as Iterable: a trailing "gen" marker passes them as one-shot generators
        gen = op[-1] == "gen"
        wrap = (lambda lst: (x for x in lst)) if gen else (lambda lst: lst)
        if k == "add_link_kw":
            r = net.add_link(node_up=o[op[1]], link=o[op[2]], node_down=o[op[3]])
        elif k == "add_origin_kw":
            r = net.add_origin(origin=o[op[1]], node=o[op[2]])
        elif k == "add_destination_kw":
            r = net.add_destination(destination=o[op[1]], node=o[op[2]])
        elif k == "add_path_kw":
            r = net.add_path(path=tuple(o[x] for x in op[1]), origin=None if op[2] is None else o[op[2]],
                             destination=None if op[3] is None else o[op[3]])
        elif k == "add_node":
            r = net.add_node(o[op[1]])
        elif k == "add_nodes":
            r = net.add_nodes(wrap([o[x] for x in op[1]]))
        elif k == "add_link":
            r = net.add_link(o[op[1]], o[op[2]], o[op[3]])
        elif k == "add_links":
            r = net.add_links(wrap([(o[u], o[l], o[v]) for u, l, v in op[1]]))
        elif k == "add_origin":
            r = net.add_origin(o[op[1]], o[op[2]])
        elif k == "add_destination":
            r = net.add_destination(o[op[1]], o[op[2]])
        elif k == "add_path":
            r = net.add_path(wrap(tuple(o[x] for x in op[1])),
                             None if op[2] is None else o[op[2]],
                             None if op[3] is None else o[op[3]])
        else:
            raise ValueError(op)
        if r is not net:
            return AssertionError(f"{k} did not return the network itself")
    except Exception as e:  # noqa: BLE001
        return e
    return None


# ---------------------------------------------------------------------------------------
# the nine validity conditions, from a snapshot
# ---------------------------------------------------------------------------------------
def violated_conditions(s: Snap, is_ramp) -> list[int]:
    """List of violated documented conditions (1..9) for the graph `s`."""
    bad = set()
    cnt = {}
    for l in s.edges.values():
        cnt[l] = cnt.get(l, 0) + 1
    for o, d in s.nodes.values():
        if o is not None:
            cnt[o] = cnt.get(o, 0) + 1
        if d is not None:
            cnt[d] = cnt.get(d, 0) + 1
    if any(c > 1 for c in cnt.values()):
        bad.add(1)
    indeg = {n: 0 for n in s.nodes}
    outdeg = {n: 0 for n in s.nodes}
    for (u, v) in s.edges:
        outdeg[u] += 1
        indeg[v] += 1
    for n, (o, d) in s.nodes.items():
        if o is not None and d is not None:
            bad.add(2)
        if indeg[n] == 0 and outdeg[n] == 0:
            bad.add(3)
        if indeg[n] == 0 and o is None:
            bad.add(4)
        if outdeg[n] == 0 and d is None:
            bad.add(5)
        if o is not None:
            if not is_ramp(o) and indeg[n] > 0:
                bad.add(6)
            if outdeg[n] > 1:
                bad.add(7)
        if d is not None:
            if indeg[n] > 1:
                bad.add(8)
            if outdeg[n] > 0:
                bad.add(9)
    return sorted(bad)


# ---------------------------------------------------------------------------------------
# lookups: expected (from a snapshot) and observed (from the real network), in labels
# ---------------------------------------------------------------------------------------
LOOKUPS = (
    "nodes", "nodes_by_name", "links", "links_by_name", "nodes_by_link",
    "origins", "origins_by_name", "origins_by_node",
    "destinations", "destinations_by_name", "destinations_by_node",
    "in_links", "out_links", "links_of_bunch", "pair_lookup",
)


def observe(net, U: Universe, name: str, s_nodes=None):
    """Reads one lookup on the real network and renders it in labels.  For the per-node
    views every node currently in the graph is queried."""
    L = U.lab
    if name == "nodes":
        return sorted(L(n) for n in net.nodes)
    if name == "links":
        return sorted((L(u), L(v), L(l)) for u, v, l in net.links)
    if name in ("nodes_by_name", "links_by_name", "origins_by_name", "destinations_by_name"):
        return {k: L(v) for k, v in getattr(net, name).items()}
    if name == "nodes_by_link":
        return {L(k): (L(v[0]), L(v[1])) for k, v in net.nodes_by_link.items()}
    if name in ("origins", "destinations", "origins_by_node", "destinations_by_node"):
        return {L(k): L(v) for k, v in getattr(net, name).items()}
    if name in ("in_links", "out_links"):
        view = getattr(net, name)
        out = {}
        for n in list(net.graph.nodes):
            out[L(n)] = sorted(tuple(L(x) for x in t) for t in view(n))
        return out
    if name == "pair_lookup":
        # subscripting the three link views with a (node, node) pair, for every edge of the graph
        out = {}
        for u, v in list(net.graph.edges):
            out[(L(u), L(v))] = (L(net.links[u, v]), L(net.out_links[u, v]), L(net.in_links[u, v]))
        return out
    if name == "links_of_bunch":
        # the documented nbunch form: a (hashable) tuple of ALL nodes of the universe, present in the graph or not
        bunch = tuple(o for lab, o in U.obj.items() if U.kind[lab] == "node")
        return {"out": sorted(tuple(L(x) for x in t) for t in net.out_links(bunch)),
                "in": sorted(tuple(L(x) for x in t) for t in net.in_links(bunch))}
    raise ValueError(name)


def check_lookup(name: str, got, s: Snap):
    """Compares an observed lookup with the recomputation from the snapshot `s`.
    Returns None or a message.  Exact wherever the answer is unambiguous; where one
    element object sits at two places (the dict API can only hold one of them) every
    returned pair must be a pair of the graph and every key must be present."""
    if name == "nodes":
        exp = sorted(s.nodes)
        return None if got == exp else f"nodes: got {got}, graph has {exp}"
    if name == "links":
        exp = sorted((u, v, l) for (u, v), l in s.edges.items())
        return None if got == exp else f"links: got {got}, graph has {exp}"
    if name == "nodes_by_name":
        exp = {n: n for n in s.nodes}
        return None if got == exp else f"nodes_by_name: got {got}, expected {exp}"
    if name == "links_by_name":
        exp = {l: l for l in s.edges.values()}
        return None if got == exp else f"links_by_name: got {got}, expected {exp}"
    if name == "nodes_by_link":
        places = {}
        for (u, v), l in s.edges.items():
            places.setdefault(l, []).append((u, v))
        return _check_multi(name, got, places)
    if name in ("origins", "destinations", "origins_by_name", "destinations_by_name",
                "origins_by_node", "destinations_by_node"):
        idx = 0 if name.startswith("origins") else 1
        places = {}
        for n, att in s.nodes.items():
            if att[idx] is not None:
                places.setdefault(att[idx], []).append(n)
        if name.endswith("_by_name"):
            exp = {e: e for e in places}
            return None if got == exp else f"{name}: got {got}, expected {exp}"
        if name.endswith("_by_node"):
            shared = any(len(v) > 1 for v in places.values())
            exp = {n: att[idx] for n, att in s.nodes.items() if att[idx] is not None}
            if not shared:
                return None if got == exp else f"{name}: got {got}, expected {exp}"
            for n, e in got.items():
                if exp.get(n) != e:
                    return f"{name}: pair {n}->{e} is not in the graph ({exp})"
            if set(got.values()) != set(exp.values()):
                return f"{name}: values {sorted(got.values())}, graph has {sorted(set(exp.values()))}"
            return None
        return _check_multi(name, got, places)
    if name == "pair_lookup":
        exp = {(u, v): (l, l, l) for (u, v), l in s.edges.items()}
        return None if got == exp else f"links[u, v] / out_links[u, v] / in_links[u, v]: got {got}, graph has {exp}"
    if name == "links_of_bunch":
        exp = sorted((u, v, l) for (u, v), l in s.edges.items())
        if got["out"] != exp or got["in"] != exp:
            return f"links of the bunch of all nodes: out {got['out']}, in {got['in']}, graph has {exp}"
        return None
    if name in ("in_links", "out_links"):
        exp = {n: [] for n in s.nodes}
        for (u, v), l in s.edges.items():
            exp[v if name == "in_links" else u].append((u, v, l))
        exp = {n: sorted(x) for n, x in exp.items()}
        return None if got == exp else f"{name}: got {got}, expected {exp}"
    raise ValueError(name)


def _check_multi(name, got, places):
    if set(got) != set(places):
        return f"{name}: keys {sorted(got)}, graph has {sorted(places)}"
    for k, v in got.items():
        v = tuple(v) if isinstance(v, (tuple, list)) else v
        if v not in places[k]:
            return f"{name}: {k}->{v}, graph has {k} at {places[k]}"
    return None
