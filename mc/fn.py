"""Helpers around compiled functions at any compactness level, using the layout model."""
from __future__ import annotations

import numpy as np
import casadi as cs

from .layout import Layout

_MAPS = {}


def eval_layout(F, lay: Layout, vals: list, pvals: dict = None):
    """Evaluates F on many value dicts, arguments packed per the layout model.
    Returns (list over vectors of {slot: value}), or raises if sizes do not fit."""
    n = len(vals)
    sizes = [F.size1_in(i) for i in range(F.n_in())]
    if len(sizes) != len(lay.in_slots) or any(s != len(sl) for s, sl in zip(sizes, lay.in_slots)):
        raise ValueError(f"argument sizes {sizes} do not fit the layout model {[len(s) for s in lay.in_slots]}")
    cols = [lay.pack(v, pvals) for v in vals]
    args = []
    for i, sz in enumerate(sizes):
        m = np.array([c[i] for c in cols], dtype=float).T.reshape(sz, n)
        args.append(cs.DM(m))
    if n == 1:
        res = F(*args)
    else:
        key = (id(F), n)
        ent = _MAPS.get(key)
        if ent is None or ent[1] is not F:
            if len(_MAPS) > 64:
                _MAPS.clear()
            ent = _MAPS[key] = (F.map(n), F)  # keep F alive so that id(F) stays unique
        res = ent[0](*args)
    if not isinstance(res, (list, tuple)):
        res = [res]
    mats = [np.array(r.full(), dtype=float).reshape(-1, n) for r in res]
    osz = [m.shape[0] for m in mats]
    if len(osz) != len(lay.out_slots) or any(s != len(sl) for s, sl in zip(osz, lay.out_slots)):
        raise ValueError(f"result sizes {osz} do not fit the layout model {[len(s) for s in lay.out_slots]}")
    out = []
    for c in range(n):
        d = {}
        for m, sl in zip(mats, lay.out_slots):
            for r, s in enumerate(sl):
                d[s] = float(m[r, c])
        out.append(d)
    return out


def names_sizes(F):
    return (list(F.name_in()), [F.size1_in(i) for i in range(F.n_in())],
            list(F.name_out()), [F.size1_out(i) for i in range(F.n_out())])
