"""Plain unit tests that replay the ten repaired defects (F1-F10) WITHOUT the explorer or any code of /verif/mc.

Run:  cd /verif && PYTHONPATH=/repo/src /venv/bin/python -m pytest -q -p no:cacheprovider findings/test_findings.py
Every test fails on the pinned tree (commit 7b3800a, possibly masked by F1 which breaks almost everything there)
and passes on the repaired tree.  The inputs are the minimal counter-examples the checks reported.
"""
import math

import casadi as cs
import numpy as np
import pytest

import sym_metanet as M
from sym_metanet.engines.casadi import Engine as CE
from sym_metanet.engines.numpy import Engine as NE

P = dict(T=10 / 3600, tau=18 / 3600, eta=60.0, kappa=40.0, delta=0.0122, phi=1.8)


def link(N=2, lanes=2, name=None, turnrate=1.0, **kw):
    cls = M.LinkWithVsl if "segments_with_vsl" in kw else M.Link
    return cls(N, lanes, 1.0, 180.0, 33.5, 102.0, 1.867, turnrate=turnrate, name=name, **kw)


def test_F1_per_node_link_views_work_under_networkx_3():
    a, b = M.Node(name="a"), M.Node(name="b")
    L = link(name="L")
    net = M.Network().add_path((a, L, b), origin=M.Origin(name="O"), destination=M.Destination(name="D"))
    assert [t[2] for t in net.out_links(a)] == [L]
    assert [t[2] for t in net.in_links(b)] == [L]
    assert net.is_valid()[0]


def test_F7_nodes_by_name_not_stale_after_implicit_node_addition():
    a, b = M.Node(name="a"), M.Node(name="b")
    net = M.Network().add_node(a)
    assert set(net.nodes_by_name) == {"a"}
    net.add_link(a, link(name="L"), b)  # adds b implicitly
    assert set(net.nodes_by_name) == {"a", "b"}


def test_F8_path_ending_with_a_link_is_rejected():
    a, L = M.Node(name="a"), link(name="L")
    net = M.Network()
    with pytest.raises(Exception):
        net.add_path((a, L), destination=M.Destination(name="D"))
    assert all(isinstance(n, M.Node) for n in net.graph.nodes)


def test_F2_network_with_ideal_origin_can_be_stepped():
    a, b = M.Node(name="a"), M.Node(name="b")
    L = link(name="L")
    net = M.Network().add_path((a, L, b), origin=M.Origin(name="O"), destination=M.Destination(name="D"))
    net.step(engine=NE(), init_conditions={L: {"rho": np.array([20.0, 25.0]), "v": np.array([90.0, 80.0])}}, **P)
    assert L.next_states["rho"].shape == (2,)


def _bifurcation():
    a, b, c, d = (M.Node(name=x) for x in "abcd")
    L0, L1, L2 = link(name="L0", lanes=3), link(name="L1", turnrate=1.0), link(name="L2", turnrate=3.0)
    O = M.MeteredOnRamp(2000.0, name="O")
    net = (M.Network().add_path((a, L0, b), origin=O).add_path((b, L1, c), destination=M.Destination(name="D1"))
           .add_path((b, L2, d), destination=M.Destination(name="D2")))
    ic = {L0: {"rho": np.array([20.0, 22.0]), "v": np.array([90.0, 88.0])},
          L1: {"rho": np.array([15.0, 30.0]), "v": np.array([95.0, 70.0])},
          L2: {"rho": np.array([25.0, 40.0]), "v": np.array([85.0, 60.0])},
          O: {"w": np.array([1.0]), "r": np.array([0.8]), "d": np.array([1000.0])}}
    return net, (L0, L1, L2), ic


def test_F3_inflow_is_split_by_turn_rates_with_one_entering_link():
    net, (L0, L1, L2), ic = _bifurcation()
    net.step(engine=NE(), init_conditions=ic, **P)
    T = P["T"]
    q_in = 22.0 * 88.0 * 3
    q0 = {}
    for L in (L1, L2):
        rho, v = ic[L]["rho"], ic[L]["v"]
        q0[L] = (L.next_states["rho"][0] - rho[0]) * L.lam * L.L / T + rho[0] * v[0] * L.lam
    assert math.isclose(q0[L1], 0.25 * q_in, rel_tol=1e-9)
    assert math.isclose(q0[L2], 0.75 * q_in, rel_tol=1e-9)


def test_F4_downstream_density_of_a_bifurcation_uses_first_segments():
    net, (L0, L1, L2), ic = _bifurcation()
    net.step(engine=NE(), init_conditions=ic, **{k: v for k, v in P.items() if k != "phi"})
    r1, r2 = 15.0, 25.0  # FIRST segments of the leaving links
    rho_dn = (r1**2 + r2**2) / (r1 + r2)
    rho, v = 22.0, 88.0
    V = 102.0 * math.exp(-(1 / 1.867) * (rho / 33.5) ** 1.867)
    exp = (v + P["T"] / P["tau"] * (V - v) + P["T"] / 1.0 * v * (90.0 - v)
           - P["eta"] * P["T"] / (P["tau"] * 1.0) * (rho_dn - rho) / (rho + P["kappa"]))
    assert math.isclose(float(L0.next_states["v"][1]), exp, rel_tol=1e-9)


def test_F5_numpy_mainstream_origin_finite_at_zero_speed():
    a, b = M.Node(name="a"), M.Node(name="b")
    L, O = link(name="L"), M.MainstreamOrigin(name="O")
    net = M.Network().add_path((a, L, b), origin=O, destination=M.Destination(name="D"))
    ic = {L: {"rho": np.array([20.0, 25.0]), "v": np.array([0.0, 80.0])},
          O: {"w": np.array([2.0]), "v_ctrl": np.array([60.0]), "d": np.array([1500.0])}}
    net.step(engine=NE(), init_conditions=ic, **P)
    assert np.all(np.isfinite(O.next_states["w"])) and np.all(np.isfinite(L.next_states["rho"]))


def test_F6_numpy_merging_term_accepts_length_1_ramp_flow():
    a, b, c = (M.Node(name=x) for x in "abc")
    net = (M.Network().add_path((a, link(name="L0"), b, link(name="L1"), c), origin=M.MainstreamOrigin(name="O"),
                                destination=M.Destination(name="D")).add_origin(M.MeteredOnRamp(2000.0, name="R"), b))
    net.step(engine=NE(np.float64(30.0)), **P)  # the engine's own (length-1) variables


def test_F9_equal_element_names_do_not_mix_up_links():
    def build(names):
        n = [M.Node(name=names[i]) for i in range(3)]
        Ls = [M.Link(1, lam, 1.0, 180.0, 33.5, 102.0, 1.867, name=names[3 + i]) for i, lam in enumerate((1, 2, 3))]
        net = (M.Network().add_nodes(n).add_link(n[0], Ls[0], n[0]).add_link(n[0], Ls[1], n[1]).add_link(n[2], Ls[2], n[0])
               .add_origin(M.Origin(name=names[6]), n[2]).add_destination(M.Destination(name=names[7]), n[1]))
        eng = CE("SX")
        net.step(engine=eng, **P)
        return eng.to_function(net, compact=2)

    x = cs.DM([14.0, 20.5, 27.0, 93.0, 85.5, 78.0])
    ref = np.array(build(list("abcdefgh"))(x, cs.DM(0, 1), cs.DM(0, 1)).full()).ravel()
    same = np.array(build(["e"] * 8)(x, cs.DM(0, 1), cs.DM(0, 1)).full()).ravel()
    assert np.allclose(same, ref, rtol=1e-12, atol=0)


def test_F10_single_segment_vsl_link_without_sign_steps_with_casadi():
    a, b = M.Node(name="a"), M.Node(name="b")
    L = link(N=1, name="L", segments_with_vsl=set(), alpha=0.1)
    net = M.Network().add_path((a, L, b), origin=M.MainstreamOrigin(name="O"), destination=M.Destination(name="D"))
    for sym in ("SX", "MX"):
        eng = CE(sym)
        net.step(engine=eng, **P)
        assert eng.to_function(net).n_out() == 3
