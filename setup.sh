#!/bin/bash
# Offline setup: nothing to build (pure Python). Verifies the interpreter and its packages.
set -e
cd "$(dirname "$0")"
/venv/bin/python - <<'PY'
import networkx, numpy, casadi, sys
print("python", sys.version.split()[0], "networkx", networkx.__version__, "numpy", numpy.__version__, "casadi", casadi.__version__)
PY
mkdir -p evidence replays
chmod +x check
echo setup ok
